"""C19  derivative callables stay finite at singular points (0 for undefined, +/-1e16 for unbounded)."""

from __future__ import annotations

import math

from checks.common import *  # noqa: F401,F403
from checks.common import Fails, close, REL_D, np, natural_key, Report, detuple
from mc import layers as L
from mc.build import Builder
from mc.interp import var_names
from mc.minimise import size
from mc.oracle import JetRef

ID = "C19"
LEVEL = "model_checking"
RULE = (
    "states = (atom, context) recipes: singular atoms {|x|, sqrt, log, log2, log10, 1/x, x**k (k=-2,-1,0.5,1.5), "
    "asin, acos, acosh, atanh, tan, norm-1, norm-2, and the vectorised sums f(v).sum(), (v**k).sum()} in the contexts "
    "{alone, + regular term, x regular term, scaled, as one row of a two-row Jacobian, written element by element "
    "(general path)}; transitions = API calls on the real code (builder ops + one compile per derivative callable: "
    "compile_gradient, compile_jacobian, compile_hessian, CompiledExpression.gradient, for V full / reversed / "
    "superset); an evaluation = one entry of a returned array at a point of the singular grid (+-0.0, +-1, +-2, 0.5, "
    "float(pi/2); vector origin / one zero entry; tiny arguments (1e-9, 1e-7) next to a singular entry, so that a regular entry above 1e16 shares an array with a non-finite one; atoms over the affine inner function 2x-1; norms of shifted vectors) checked for finiteness, for equality with the reference where "
    "the entry is regular, for the stated value (0 / +-1e16) on the bare atoms, and for entry-wise agreement of "
    "the vectorised and the element-by-element build; plus a complete GENERATED layer on the same singular grid (quick: "
    "unary chains <= 2, every unary function of every binary operation of two leaves, every binary operation of "
    "operands that are leaves or unary functions of a variable; thorough: every tree of depth <= 2 over 24 operators "
    "and leaves x, y, 2, -1, and unary chains <= 3), checked for finiteness and unchanged regular entries (an entry that differs from the reference only counts when it also differs from optyx's own unsanitised symbolic derivative: formula accuracy at ill-conditioned points is C02 / C17's subject).  Non-trivial = case with >=1 singular entry observed."
)
ASSUMPTIONS = [
    "entry-level regularity from the reference jets (an entry is regular when no non-differentiable elementary "
    "operation met at the point depends on its variable); only finiteness and path agreement are demanded of "
    "singular entries of composite contexts",
]

X, Y = L.X, L.Y
V3 = L.V3
BIG = 1e16
SX = (0.0, -0.0, 1.0, -1.0, 2.0, -2.0, 0.5, math.pi / 2)
SY = (0.75, -1.5)
VPTS = ((0.0, 0.0, 0.0), (0.0, 1.0, -2.0), (0.5, 0.0, 2.0), (-0.0, 0.0, 1.0), (1.0, -1.0, 0.5), (2.0, 0.5, 1.0),
        (math.pi / 2, 1.0, 2.0), (-1.0, -2.0, -0.5))

# bare scalar atoms: (recipe, {singular x: expected d/dx or ('abs', magnitude)})
SCALAR_ATOMS = [
    (("un", "abs", X), {0.0: 0.0, -0.0: 0.0}),
    (("un", "sqrt", X), {0.0: BIG, -0.0: ("abs", BIG)}),
    (("un", "log", X), {0.0: BIG, -0.0: ("abs", BIG)}),
    (("un", "log2", X), {0.0: BIG, -0.0: ("abs", BIG)}),
    (("un", "log10", X), {0.0: BIG, -0.0: ("abs", BIG)}),
    (("bin", "/", ("c", 1), X), {0.0: -BIG, -0.0: -BIG}),
    (("bin", "**", X, ("c", -2)), {0.0: ("abs", BIG), -0.0: ("abs", BIG)}),
    (("bin", "**", X, ("c", -1)), {0.0: -BIG, -0.0: -BIG}),
    (("bin", "**", X, ("c", 0.5)), {0.0: BIG, -0.0: ("abs", BIG)}),
    (("bin", "**", X, ("c", 1.5)), {}),
    (("un", "asin", X), {1.0: BIG, -1.0: BIG}),
    (("un", "acos", X), {1.0: -BIG, -1.0: -BIG}),
    (("un", "acosh", X), {1.0: BIG}),
    (("un", "atanh", X), {1.0: ("abs", BIG), -1.0: ("abs", BIG)}),
    (("un", "tan", X), {}),
]
VEC_FUN = ("abs", "sqrt", "log", "tan", "exp")
VEC_POW = (-2, -1, 0.5, 1.5, 3)


def elementwise(make):
    """f(v0)+f(v1)+f(v2): the same formula written with scalar nodes (general path)."""
    es = [make(("idx", V3, i)) for i in range(3)]
    return ("bin", "+", ("bin", "+", es[0], es[1]), es[2])


def all_cases():
    R = ("bin", "**", Y, ("c", 2))
    Rp = ("bin", "+", R, ("c", 1))
    for atom, table in SCALAR_ATOMS:
        yield {"id": ("scalar", atom, "alone"), "rows": (atom,), "table": table}
        yield {"id": ("scalar", atom, "+R"), "rows": (("bin", "+", atom, R),)}
        yield {"id": ("scalar", atom, "R+"), "rows": (("bin", "+", R, atom),)}
        yield {"id": ("scalar", atom, "xR"), "rows": (("bin", "*", atom, Rp),)}
        yield {"id": ("scalar", atom, "scaled"), "rows": (("bin", "*", ("c", 3), atom),)}
        yield {"id": ("scalar", atom, "2rows"), "rows": (R, atom)}
        yield {"id": ("scalar", atom, "square"), "rows": (("bin", "*", atom, atom),)}
    # atoms over an affine inner function: the singular set moves to x = 0.5 (on the grid)
    G = ("bin", "-", ("bin", "*", ("c", 2), X), ("c", 1))
    for f in ("abs", "sqrt", "log", "asin", "acosh"):
        atom = ("un", f, G if f != "acosh" else ("bin", "+", G, ("c", 1)))
        yield {"id": ("inner", f, "alone"), "rows": (atom,)}
        yield {"id": ("inner", f, "+R"), "rows": (("bin", "+", atom, R),)}
        yield {"id": ("inner", f, "2rows-both-singular"), "rows": (("un", "abs", X), atom)}
        yield {"id": ("inner", f, "xatom"), "rows": (("bin", "*", atom, ("un", "abs", Y)),)}
    for k in (-1, 0.5, 1.5, -0.5):
        atom = ("bin", "**", G, ("c", k))
        yield {"id": ("inner-pow", k, "alone"), "rows": (atom,)}
        yield {"id": ("inner-pow", k, "2rows"), "rows": (atom, R)}
    for o in (1, 2):
        d = ("vbin", "-", V3, ("arr", (0.5, 0.0, 2.0)))          # zero at the grid point (0.5, 0, 2)
        yield {"id": ("norm-of-shifted", o, "alone"), "rows": (("norm", d, o),)}
        yield {"id": ("norm-of-shifted", o, "+R"), "rows": (("bin", "+", ("norm", d, o), R),)}
        yield {"id": ("norm", o, "both-rows"), "rows": (("norm", V3, 1), ("norm", V3, 2))}
        yield {"id": ("norm", o, "squared"), "rows": (("bin", "**", ("norm", V3, o), ("c", 2)),)}
    # norms under every outer function / power (derivative rules that combine the norm value only with constants)
    for o in (1, 2):
        for nrm, tag in ((("norm", V3, o), "v"), (("norm", ("vbin", "-", V3, ("arr", (0.5, 0.0, 2.0))), o), "v-shift")):
            for f in ("log", "sqrt", "exp", "tanh", "sin", "abs", "log2", "atan"):
                yield {"id": ("norm-under", o, tag, f), "rows": (("un", f, nrm),)}
            for k in (0.5, -0.5, -1, 1.5, 3, -2):
                yield {"id": ("norm-power", o, tag, k), "rows": (("bin", "**", nrm, ("c", k)),)}
            yield {"id": ("norm-recip", o, tag), "rows": (("bin", "/", ("c", 1), nrm),)}
            yield {"id": ("norm-times-norm", o, tag), "rows": (("bin", "*", nrm, nrm), ("un", "log", nrm))}
    for o in (1, 2):
        n = ("norm", V3, o)
        yield {"id": ("norm", o, "alone"), "rows": (n,), "norm": o}
        yield {"id": ("norm", o, "+R"), "rows": (("bin", "+", n, R),)}
        yield {"id": ("norm", o, "xR"), "rows": (("bin", "*", n, Rp),)}
        yield {"id": ("norm", o, "2rows"), "rows": (R, n)}
        yield {"id": ("norm", o, "of-expr"), "rows": (("norm", ("vbin", "*", V3, ("c", 2)), o),)}
    # one array holding BOTH a singular entry and a regular entry of huge magnitude (> 1e16): x tiny, y on the singular set
    tiny = {"x": (1e-9, -1e-9, 1e-7, 1e-9), "y": (0.0, 0.0, 0.0, 0.75)}
    for big in (("bin", "/", ("c", 1), X), ("bin", "**", X, ("c", -2)), ("un", "log", ("un", "abs", X))):
        for sg in (("un", "sqrt", Y), ("un", "abs", Y), ("un", "log", Y)):
            yield {"id": ("huge+singular", big, sg, "sum"), "rows": (("bin", "+", big, sg),), "points": tiny}
            yield {"id": ("huge+singular", big, sg, "2rows"), "rows": (big, sg), "points": tiny}
    vt = {"v[0]": (0.0, 0.0, 1e-9), "v[1]": (1e-9, -1e-9, 0.0), "v[2]": (2.0, 1e-7, 0.0), "y": (0.75, 0.75, 0.75)}
    for f, k in (("log", None), ("sqrt", None), (None, -1), (None, -2), (None, 0.5)):
        vec = ("sum", ("vun", f, V3)) if f else ("sum", ("vpow", V3, k))
        gen = elementwise((lambda e, f=f: ("un", f, e)) if f else (lambda e, k=k: ("bin", "**", e, ("c", k))))
        yield {"id": ("huge+singular-vector", f or k, "paths"), "rows": (vec,), "twin": (gen,), "points": vt}
    # norms at tiny NON-zero vectors (regular points: the gradient of the 2-norm is the unit vector v/|v|, entries of order 1)
    vtiny = {"v[0]": (3e-13, 3e-100, 0.0, -3e-13, 6e-9), "v[1]": (4e-13, 4e-100, 5e-13, 0.0, 8e-9), "v[2]": (0.0, 0.0, 0.0, 4e-13, 0.0),
             "y": (0.75, 0.75, 0.75, 0.75, 0.75)}
    for o in (1, 2):
        n = ("norm", V3, o)
        yield {"id": ("norm-tiny", o, "alone"), "rows": (n,), "points": vtiny}
        yield {"id": ("norm-tiny", o, "+R"), "rows": (("bin", "+", n, R),), "points": vtiny}
        yield {"id": ("norm-tiny", o, "2rows"), "rows": (R, n), "points": vtiny}
        yield {"id": ("norm-tiny", o, "scaled"), "rows": (("bin", "*", ("c", 3), n),), "points": vtiny}
        yield {"id": ("norm-tiny", o, "of-expr"), "rows": (("norm", ("vbin", "*", V3, ("c", 2)), o),), "points": vtiny}
        yield {"id": ("norm-tiny", o, "of-view"), "rows": (("norm", ("slice", V3, None, None, -1), o),), "points": vtiny}
    for f in VEC_FUN:
        vec = ("sum", ("vun", f, V3))
        gen = elementwise(lambda e, f=f: ("un", f, e))
        yield {"id": ("vsum", f, "paths"), "rows": (vec,), "twin": (gen,)}
        yield {"id": ("vsum", f, "+R"), "rows": (("bin", "+", vec, R),), "twin": (("bin", "+", gen, R),)}
        yield {"id": ("vsum", f, "2rows"), "rows": (R, vec), "twin": (R, gen)}
    for k in VEC_POW:
        vec = ("sum", ("vpow", V3, k))
        gen = elementwise(lambda e, k=k: ("bin", "**", e, ("c", k)))
        yield {"id": ("vpow", k, "paths"), "rows": (vec,), "twin": (gen,)}
        yield {"id": ("vpow", k, "scaled"), "rows": (("bin", "*", ("c", 2), vec),), "twin": (("bin", "*", ("c", 2), gen),)}
        yield {"id": ("vpow", k, "2rows"), "rows": (R, vec), "twin": (R, gen)}


GL = (X, Y, ("c", 2), ("c", -1))


def generated(tier):
    """Complete generated layer: every composition below, evaluated on the singular grid (x in +-0, +-1, +-2, 0.5,
    pi/2; y in 0.75, -1.5): all unary chains of length <= 2 (<= 3 thorough) over x, every unary function of every
    binary operation of two leaves, every binary operation of two operands that are leaves or unary functions of x / y
    (thorough: every tree of depth <= 2 over 24 operators and the leaves x, y, 2, -1)."""
    from mc.alg import UNARY

    if tier == "thorough":
        yield from L.layer_A(GL, 2)
        yield from L.layer_C(3)
        return
    yield from L.layer_C(2)
    d1b = [("bin", op, a, b) for op in L.BINOPS for a in GL for b in GL]
    for f in UNARY:
        for a in d1b:
            yield ("un", f, a)
    ops = list(GL) + [("un", f, v) for f in UNARY for v in (X, Y)]
    for op in L.BINOPS:
        for a in ops:
            for b in ops:
                yield ("bin", op, a, b)


NG = 32


def shards(tier, seed):
    n = len(list(all_cases()))
    return list(range(n)) + [("G", i, NG) for i in range(NG)]


def points_for(names):
    vn = [n for n in names if n.startswith("v[")]
    pts = []
    if vn:
        for vp in VPTS:
            for yv in SY[:1] if "y" not in names else SY:
                d = {f"v[{i}]": vp[i] for i in range(3)}
                d["y"] = yv
                pts.append(d)
    else:
        for xv in SX:
            for yv in SY[:1] if "y" not in names else SY:
                pts.append({"x": xv, "y": yv})
    allnames = sorted(set(names) | {"y"})
    return {n: np.array([p.get(n, 0.0) for p in pts]) for n in allnames}, len(pts)


def int_point_mismatch(fn, n):
    """the same point spelled as an int64 array - regular points and points ON the singular set (zeros): the sanitised
    result must not depend on the dtype of the point"""
    for base in ([(2 * i) % 5 for i in range(n)], [1 + (i % 3) for i in range(n)], [(i + 1) % 3 for i in range(n)]):
        with np.errstate(all="ignore"):
            try:
                ref = np.array(fn(np.array(base, dtype=np.float64)), dtype=float, copy=True)
            except Exception:
                continue
            try:
                raw = fn(np.array(base, dtype=np.int64))
                got = np.asarray(raw, dtype=float)
            except Exception:
                continue        # integer arithmetic that NumPy itself rejects (int ** negative int): not judged
            if got.shape != ref.shape:
                return {"point": base, "dtype": "int64", "got": got.tolist(), "float64": ref.tolist()}
            # regular entries: equal; sanitised entries: still a sanitised value (an integer zero has no sign, so the
            # SIGN of an unbounded entry such as d/dx (-x)**-1 at 0 may legitimately differ from the float spelling)
            # (an exact 0 in the float answer may itself be a sanitised NaN - sqrt(-0.0) - which the integer spelling,
            # having no negative zero, legitimately turns into an unbounded entry: zeros are not compared either)
            reg = np.isfinite(ref) & (np.abs(ref) < 1e15) & (ref != 0.0)
            ok_reg = np.allclose(got[reg], ref[reg], rtol=1e-12, atol=1e-12) if reg.any() else True
            ok_sing = bool(np.all(np.isfinite(got)))
            if not (ok_reg and ok_sing):
                return {"point": base, "dtype": "int64", "got": got.tolist(), "float64": ref.tolist()}
    return None


def callables(b, rows, vn, fails, rep):
    from optyx.core import autodiff, compiler
    from optyx.core.expressions import Expression, Constant

    es = [b.build(r) for r in rows]
    es = [e if isinstance(e, Expression) else Constant(e) for e in es]
    V = b.variables_for(vn)
    out = {}
    try:
        jf = autodiff.compile_jacobian(es, V)
        out["jacobian"] = (jf.__name__, lambda x, f=InPlace(jf): np.asarray(f(x), dtype=float))
    except Exception as ex:
        fails.add("exception:compile_jacobian:" + type(ex).__name__, msg=str(ex)[:200])
    target = es[-1]
    try:
        gf = compiler.compile_gradient(target, V)
        out["gradient"] = (gf.__name__, lambda x, f=InPlace(gf): np.asarray(f(x), dtype=float).reshape(-1))
        ce = compiler.CompiledExpression(target, V)
        out["ce.gradient"] = ("CompiledExpression", lambda x, f=InPlace(ce.gradient): np.asarray(f(x), dtype=float).reshape(-1))
    except Exception as ex:
        fails.add("exception:compile_gradient:" + type(ex).__name__, msg=str(ex)[:200])
    try:
        hf = autodiff.compile_hessian(target, V)
        out["hessian"] = (hf.__name__, lambda x, f=InPlace(hf): np.asarray(f(x), dtype=float))
    except Exception as ex:
        fails.add("exception:compile_hessian:" + type(ex).__name__, msg=str(ex)[:200])
    for lab_, fn_ in (("jacobian", locals().get("jf")), ("gradient", locals().get("gf")), ("hessian", locals().get("hf"))):
        if fn_ is not None and lab_ in out:
            tm = int_point_mismatch(fn_, len(V))
            if tm is not None:
                fails.add("point-dtype-leaks-into-sanitised-derivative:" + lab_, V=vn, **tm)
    if rep:
        rep.transitions += sum(size(r) for r in rows) + len(out)
        for k, (nm, _) in out.items():
            rep.outcomes[f"path:{k}:{nm}"] += 1
    out["__objects__"] = (es, V)
    return out


def unsanitised(objs, lab, x_names, xvals):
    """optyx's own symbolic derivative evaluated on the tree (no sanitiser involved): the entries the sanitiser must
    leave unchanged are exactly the finite ones of this array"""
    from optyx.core import autodiff

    es, V = objs
    pd = dict(zip(x_names, (float(t) for t in xvals)))
    with np.errstate(all="ignore"):
        if lab in ("gradient", "ce.gradient"):
            return np.array([float(np.asarray(autodiff.gradient(es[-1], v).evaluate(pd)).reshape(-1)[0]) for v in V])
        if lab == "jacobian":
            return np.array([[float(np.asarray(autodiff.gradient(e, v).evaluate(pd)).reshape(-1)[0]) for v in V] for e in es])
        H = autodiff.compute_hessian(es[-1], V)
        return np.array([[float(np.asarray(H[i][j].evaluate(pd)).reshape(-1)[0]) for j in range(len(V))] for i in range(len(V))])


def check_case(case, tier, seed, rep=None, want=None):
    fails = Fails(want)
    rows = case["rows"]
    names = sorted(set().union(*[var_names(r) for r in rows]))
    try:
        for r_ in rows:
            Builder().build(r_)
    except Exception as ex:          # e.g. constants folding to a Python ZeroDivisionError: not an optyx expression
        if rep:
            rep.skipped["build:" + type(ex).__name__] += 1
        return fails
    if "points" in case:
        pts = {n: np.array(v, dtype=float) for n, v in case["points"].items()}
        Pn = len(next(iter(pts.values())))
    else:
        pts, Pn = points_for(names)
    wrt = sorted(pts.keys(), key=natural_key)
    ref = JetRef(rows[-1], wrt, pts, Pn, {})
    refs_rows = [JetRef(r, wrt, pts, Pn, {}) for r in rows]
    pos = {n: i for i, n in enumerate(wrt)}
    menus = [("natural", wrt), ("reversed", wrt[::-1])]
    core = sorted(names, key=natural_key)
    if core and core != wrt:
        menus.append(("exact", core))
    if len(wrt) > 2:
        menus.append(("foreign-first", [w for w in wrt if w not in core] + core))
        menus.append(("rotated", wrt[1:] + wrt[:1]))
    singular_seen = 0
    for vlab, vn in menus:
        perm = [pos[n] for n in vn]
        b = Builder()
        fns = callables(b, rows, vn, fails, rep)
        objs = fns.pop("__objects__", None)
        twin = None
        if "twin" in case:
            twin = callables(Builder(), case["twin"], vn, fails, None)
            twin.pop("__objects__", None)
        for k in range(Pn):
            x = np.array([float(pts[n][k]) for n in vn])
            outs = {}
            for lab, (nm, fn) in fns.items():
                try:
                    with np.errstate(all="ignore"):
                        got = fn(x)
                except Exception as ex:
                    fails.add(f"exception:call:{lab}:" + type(ex).__name__, V=vlab, x=x, msg=str(ex)[:200])
                    continue
                outs[lab] = got
                if rep:
                    rep.evaluations += got.size
                if not np.all(np.isfinite(got)):
                    fails.add(f"non-finite:{lab}", V=vlab, order=vn, x=x, got=got, path=nm)
                    continue
                # regular entries unchanged
                if lab in ("gradient", "ce.gradient"):
                    exp, sing, err = ref.g[perm, k], ref.sing[perm, k], ref.eg[perm, k]
                    okp = ref.ok[k]
                elif lab == "jacobian":
                    exp = np.stack([rr.g[perm, k] for rr in refs_rows])
                    sing = np.stack([rr.sing[perm, k] for rr in refs_rows])
                    err = np.stack([rr.eg[perm, k] for rr in refs_rows])
                    okp = all(rr.ok[k] for rr in refs_rows)
                else:
                    exp = ref.H[np.ix_(perm, perm)][:, :, k]
                    s1 = ref.sing[perm, k]
                    sing = s1[:, None] | s1[None, :]
                    err = ref.eH[np.ix_(perm, perm)][:, :, k]
                    okp = ref.ok[k]
                if got.shape != exp.shape:
                    fails.add(f"shape:{lab}", V=vlab, shape=got.shape)
                    continue
                singular_seen += int(np.sum(sing))
                if okp:
                    regmask = ~sing & np.isfinite(exp)
                    bad = regmask & ~close(got, np.where(regmask, exp, 0.0), np.where(regmask, err, 0.0), REL_D)
                    if bad.any() and case["id"][0] == "generated" and objs is not None:
                        # generated layer: the accuracy of the derivative FORMULA at ill-conditioned points (cos(pi/2) =
                        # 6e-17 ...) is C02 / C17's subject; here an entry counts as changed only if it also differs
                        # from optyx's own unsanitised symbolic derivative (finite there)
                        try:
                            raw = unsanitised(objs, lab, vn, x)
                            same = np.isfinite(raw) & (np.abs(got - np.where(np.isfinite(raw), raw, 0.0)) <= 1e-9 * (1 + np.abs(got)))
                            bad = bad & ~same & np.isfinite(raw)
                            if rep and not bad.any():
                                rep.skipped["ill-conditioned-regular-entry-equal-to-unsanitised-derivative"] += 1
                        except Exception:
                            pass
                    if bad.any():
                        fails.add(f"regular-entry-changed:{lab}", V=vlab, order=vn, x=x, got=got, expected=exp, path=nm)
                # stated values on bare atoms
                if lab == "gradient" and "table" in case and "x" in vn:
                    xv = float(pts["x"][k])
                    for sx, expv in case["table"].items():
                        if xv == sx and math.copysign(1, xv) == math.copysign(1, sx):
                            g = got[vn.index("x")]
                            okv = abs(g) == expv[1] if isinstance(expv, tuple) else g == expv
                            if not okv:
                                fails.add("stated-value:gradient", x=x, got=float(g), expected=expv, path=nm)
                if lab == "gradient" and "norm" in case:
                    vv = np.array([pts[f"v[{i}]"][k] for i in range(3)])
                    for i in range(3):
                        g = got[vn.index(f"v[{i}]")]
                        if case["norm"] == 1 and vv[i] == 0 and g != 0.0:
                            fails.add("stated-value:norm1", x=x, got=got)
                        if case["norm"] == 2 and not vv.any() and g != 0.0:
                            fails.add("stated-value:norm2-origin", x=x, got=got)
            if twin:
                for lab, got in outs.items():
                    if lab not in twin:
                        continue
                    try:
                        with np.errstate(all="ignore"):
                            other = twin[lab][1](x)
                    except Exception as ex:
                        fails.add(f"exception:call-general:{lab}:" + type(ex).__name__, x=x, msg=str(ex)[:200])
                        continue
                    if rep:
                        rep.evaluations += got.size
                    if got.shape != other.shape or not np.allclose(got, other, rtol=1e-9, atol=1e-12, equal_nan=True):
                        fails.add(f"vectorised-vs-general:{lab}", V=vlab, order=vn, x=x, vectorised=got, general=other,
                                  path=fns[lab][0])
    if rep:
        rep.states += 1
        if singular_seen:
            rep.nt(case["id"])
        rep.extra["singular_entries_observed"] = rep.extra.get("singular_entries_observed", 0) + singular_seen
    return fails


def explore(item, tier, seed):
    rep = Report()
    if isinstance(item, tuple):
        for j, r in enumerate(L.shard(generated(tier), item[1], item[2])):
            case = {"id": ("generated", r), "rows": (r,)}
            fs = check_case(case, tier, seed, rep)
            seen = set()
            for kind, d in fs:
                if kind not in seen:
                    seen.add(kind)
                    rep.violation(kind, {"index": None, "id": case["id"]}, **d)
            if j % 499 == 0:
                rep.sample({"case": "generated", "rows": (r,)})
        return rep
    case = list(all_cases())[item]
    fs = check_case(case, tier, seed, rep)
    seen = set()
    for kind, d in fs:
        if kind not in seen:
            seen.add(kind)
            rep.violation(kind, {"index": item, "id": case["id"]}, **d)
    if item % 17 == 0:
        rep.sample({"case": case["id"], "rows": case["rows"]})
    return rep


def culprit(v):
    return {"kind": v["kind"], "id": v["case"]["id"]}


def replay(art):
    cid = detuple(art["culprit"]["id"])
    if cid and cid[0] == "generated":
        fs = check_case({"id": cid, "rows": (cid[1],)}, "quick", 0, None, want=art["culprit"]["kind"])
        return [{"kind": k, "detail": d} for k, d in fs]
    for case in all_cases():
        if case["id"] == cid or detuple(list(case["id"])) == cid:
            fs = check_case(case, "quick", 0, None, want=art["culprit"]["kind"])
            return [{"kind": k, "detail": d} for k, d in fs]
    return [{"kind": "unknown-case", "detail": {}}]
