#!/venv/bin/python
"""Validate and register a seeded property-breaking change.

    selftest/seed.py <id> <property> <patch.diff> <demo.py> "<what it needs to manifest>" [check ids...]

Independently of whoever wrote the change, in scratch copies outside /repo and /verif:
  1. demo passes on the unchanged tree,
  2. the patch applies, the pinned test suite still passes with it,
  3. demo fails with the patch,
  4. the named quick checks (default: the property's own) are run against the patched copy.
Then patch, demo and meta.json are stored under /verif/seeded/<id>/.  Scratch copies are removed.
"""
import json
import os
import shutil
import subprocess
import sys
import tempfile

HERE = os.path.dirname(os.path.abspath(__file__))
ROOT = os.path.dirname(HERE)


def sh(cmd, **kw):
    return subprocess.run(cmd, shell=True, capture_output=True, text=True, **kw)


def main():
    sid, prop, patch, demo, needs = sys.argv[1:6]
    checks = sys.argv[6:] or [prop]
    scratch = tempfile.mkdtemp(prefix="optyx_seed_", dir="/var/tmp")
    meta = {"id": sid, "property": prop, "needs_to_manifest": needs, "ran": []}
    try:
        root = os.path.join(scratch, "repo")
        shutil.copytree("/repo", root, ignore=shutil.ignore_patterns(".git", "__pycache__", "docs", "benchmarks", "examples"))
        env = f"PYTHONPATH={root}/src"
        r = sh(f"{env} /venv/bin/python {os.path.abspath(demo)}", cwd=scratch)
        meta["demo_on_unchanged_tree"] = "pass" if r.returncode == 0 else f"FAIL rc={r.returncode}"
        meta["ran"].append(f"{env} /venv/bin/python demo.py   (unchanged copy) -> rc={r.returncode}")
        sh("git init -q", cwd=root)
        r = sh(f"git apply --whitespace=nowarn {os.path.abspath(patch)}", cwd=root)
        if r.returncode:
            print("PATCH DOES NOT APPLY", r.stderr[-400:])
            return 3
        for attempt in range(4):     # one wall-clock performance test is flaky on a busy machine: retry
            r = sh(f"{env} /venv/bin/python -m pytest -q -x -p no:cacheprovider --timeout=900 2>&1 | tail -8", cwd=root)
            last = r.stdout.strip().splitlines()[-1] if r.stdout.strip() else "?"
            if "failed" not in last or ("TestGradientComplexity" not in r.stdout and "test_quadratic_form_constant_time" not in r.stdout):
                break
        meta["repo_tests_with_patch"] = last
        meta["ran"].append(f"cd <copy> && {env} /venv/bin/python -m pytest -q -x -p no:cacheprovider --timeout=900 -> {last}")
        r = sh(f"{env} /venv/bin/python {os.path.abspath(demo)}", cwd=scratch)
        meta["demo_with_patch"] = "fails (as intended)" if r.returncode != 0 else "PASSES (change not demonstrated)"
        meta["ran"].append(f"{env} /venv/bin/python demo.py   (patched copy) -> rc={r.returncode}")
        meta["checks"] = {}
        for chk in checks:
            r = subprocess.run([os.path.join(ROOT, "check"), chk, "--tier", "quick"], capture_output=True, text=True,
                               env=dict(os.environ, OPTYX_SRC=os.path.join(root, "src")))
            viol = [l for l in r.stdout.splitlines() if l.startswith("VIOLATION")]
            culp = [l.strip()[9:].strip() for l in r.stdout.splitlines() if l.strip().startswith("culprit:")]
            meta["checks"][chk] = {"exit": r.returncode, "violations": len(viol), "first_culprits": culp[:3]}
            meta["ran"].append(f"OPTYX_SRC=<patched copy>/src ./check {chk} --tier quick -> exit {r.returncode}, {len(viol)} VIOLATION lines")
            if r.returncode not in (0, 1):
                print(r.stdout[-1500:], r.stderr[-800:])
        out = os.path.join(ROOT, "seeded", sid)
        os.makedirs(out, exist_ok=True)
        shutil.copy(patch, os.path.join(out, "patch.diff"))
        shutil.copy(demo, os.path.join(out, "demo.py"))
        json.dump(meta, open(os.path.join(out, "meta.json"), "w"), indent=1)
        print(json.dumps({k: meta[k] for k in ("demo_on_unchanged_tree", "repo_tests_with_patch", "demo_with_patch", "checks")}, indent=1))
        return 0
    finally:
        shutil.rmtree(scratch, ignore_errors=True)


if __name__ == "__main__":
    sys.exit(main())
