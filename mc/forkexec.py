"""One execution per forked child of a pristine parent (true fresh-process state without re-importing)."""

from __future__ import annotations

import os
import pickle
import signal
import traceback


def pristine():
    """True when no optyx object has passed through the process-wide memos of this process: every lru_cache-style
    memo defined at module level in any optyx module is empty, and so is every private module-level dict / list / set
    that was empty or absent at import time (no private name of optyx is spelled out here)."""
    import sys

    for name, mod in list(sys.modules.items()):
        if name != "optyx" and not name.startswith("optyx."):
            continue
        for attr, obj in list(vars(mod).items()):
            ci = getattr(obj, "cache_info", None)
            if callable(ci):
                try:
                    if ci().currsize != 0:
                        return False
                except Exception:
                    pass
            elif attr.startswith("_") and not attr.startswith("__") and isinstance(obj, (dict, list, set)) \
                    and (attr, name) in _EMPTY_AT_IMPORT and len(obj) != 0:
                return False
    return True


def _snapshot_empty_containers():
    import sys

    out = set()
    for name, mod in list(sys.modules.items()):
        if name == "optyx" or name.startswith("optyx."):
            for attr, obj in list(vars(mod).items()):
                if attr.startswith("_") and not attr.startswith("__") and isinstance(obj, (dict, list, set)) and len(obj) == 0:
                    out.add((attr, name))
    return out


try:
    import optyx  # noqa: F401

    _EMPTY_AT_IMPORT = _snapshot_empty_containers()
except Exception:      # pragma: no cover
    _EMPTY_AT_IMPORT = set()


def run_in_child(fn, *args, timeout=120):
    """Run fn(*args) in a forked child and return its (picklable) result; exceptions come back as
    ('child-exception', text)."""
    r, w = os.pipe()
    pid = os.fork()
    if pid == 0:
        os.close(r)
        try:
            try:
                out = ("ok", fn(*args))
            except BaseException:
                out = ("child-exception", traceback.format_exc()[-2000:])
            with os.fdopen(w, "wb") as fh:
                pickle.dump(out, fh, protocol=pickle.HIGHEST_PROTOCOL)
        finally:
            os._exit(0)
    os.close(w)
    data = b""
    with os.fdopen(r, "rb") as fh:
        data = fh.read()
    os.waitpid(pid, 0)
    if not data:
        return ("child-exception", "child produced no output")
    return pickle.loads(data)


_WARM = False


def warm_scipy():
    """Import-time work of SciPy's solvers is done once in the parent with raw calls (no optyx object is built)."""
    global _WARM
    if _WARM:
        return
    import warnings

    import numpy as np
    from scipy.optimize import linprog, minimize

    with warnings.catch_warnings():
        warnings.simplefilter("ignore")
        f = lambda x: float((x[0] - 1) ** 2 + (x[1] - 2) ** 2)       # noqa: E731
        g = lambda x: np.array([2 * (x[0] - 1), 2 * (x[1] - 2)])      # noqa: E731
        h = lambda x: np.array([[2.0, 0.0], [0.0, 2.0]])              # noqa: E731
        cons = [{"type": "ineq", "fun": lambda x: 3 - x[0] - x[1], "jac": lambda x: np.array([-1.0, -1.0])}]
        for m in ("SLSQP", "trust-constr", "L-BFGS-B", "TNC", "BFGS", "Nelder-Mead"):
            try:
                minimize(f, np.zeros(2), method=m, jac=g if m != "Nelder-Mead" else None,
                         hess=h if m == "trust-constr" else None, bounds=[(-5, 5)] * 2 if m in ("SLSQP", "trust-constr", "L-BFGS-B", "TNC") else None,
                         constraints=cons if m in ("SLSQP", "trust-constr") else ())
            except Exception:
                pass
        for m in ("highs", "highs-ds", "highs-ipm"):
            linprog(c=[1.0, 2.0], A_ub=[[-1.0, -1.0]], b_ub=[-1.0], bounds=[(0, 2)] * 2, method=m)
    _WARM = True
