"""C09  nonlinear solves are a transparent wrapper over SciPy (wiring exact, results equal to the raw call)."""

from __future__ import annotations

import itertools

import scipy.optimize

from checks.common import Fails, Report, detuple, np
from mc import capture as CAP
from mc import problems as PR
from mc.minimise import size
from mc.seams import Seam

ID = "C09"
LEVEL = "model_checking"
RULE = (
    "states = generated strictly convex problems: n in {1,2,3} variables (names whose natural order differs from "
    "construction order) x objective kind {diagonal QP, coupled QP as scalar formula / QuadraticForm / x.dot(Q@x), "
    "sum exp(a u)-a u + QP, sum u^4 + QP, sum cosh} shifted to a manufactured unconstrained optimum x* x active "
    "set {none, inactive / weakly active / strictly active inequality, equality through x*, equality moving the "
    "optimum, inequality+equality, a row over a strict subset of the variables, several vector-form rows with equal sense and right-hand side, a matrix-vector row block} x bounds {none, inactive, clamping} x {min f, max -f} x method {auto, SLSQP, "
    "trust-constr, L-BFGS-B when unconstrained}: the full product.  transitions = solves on the real code (one "
    "captured optyx solve + one raw scipy.optimize.minimize call with hand-written reference callables, same "
    "method, bounds, constraints and the captured x0); evaluations = (1) every captured callable (fun, jac, hess, "
    "constraint fun/jac), bounds, x0 and method compared with the reference model at probe points (exact), (2) "
    "status / objective / point of optyx vs the raw call when the raw call converges.  Non-trivial = raw call "
    "converged; distinct by (recipe, method).  Constrained cases are repeated on a NON-INITIAL problem object (solved once "
    "with another objective over another variable set, objective then replaced)."
)
ASSUMPTIONS = [
    "raw scipy.optimize.minimize with reference callables is the ground truth; cases where it does not converge are counted, not judged",
    "objective gap 1e-6*(1+|f*|), point gap 1e-4*(1+|x*|) (unique optimum by strict convexity)",
]
NSH = 48

# construction order; natural order (c, x2, x10) differs from lexicographic order (c, x10, x2) and from construction order
NAMES = {1: ["x"], 2: ["x10", "x9"], 3: ["x10", "x2", "c"]}
XSTAR = {1: [1.5], 2: [0.5, -1.0], 3: [1.0, -0.5, 2.0]}
AV = {1: [1.0], 2: [1.0, 2.0], 3: [1.0, -1.0, 2.0]}
QS = {
    1: ((2.0,),),
    2: ((2.0, 0.5), (0.5, 1.0)),
    3: ((2.0, 0.5, 0.0), (0.5, 1.0, -0.25), (0.0, -0.25, 3.0)),
}


def c(v):
    return ("c", v)


def add(*ts):
    r = ts[0]
    for t in ts[1:]:
        r = ("bin", "+", r, t)
    return r


def mul(a, b):
    return ("bin", "*", a, b)


def sub(a, b):
    return ("bin", "-", a, b)


def objectives(n):
    vs = [("var", nm) for nm in NAMES[n]]
    u = [sub(v, c(x)) for v, x in zip(vs, XSTAR[n])]
    Q = QS[n]
    diag = add(*[mul(c(Q[i][i]), ("bin", "**", u[i], c(2))) for i in range(n)])
    coupled = add(*[mul(c(Q[i][j]), mul(u[i], u[j])) for i in range(n) for j in range(n)])
    out = {
        "diag-qp": add(diag, c(1.0)),
        "coupled-qp": add(coupled, c(-2.0)),
        "exp": add(*[sub(("un", "exp", mul(c(0.5 + 0.25 * i), u[i])), mul(c(0.5 + 0.25 * i), u[i])) for i in range(n)], diag),
        "quartic": add(*[("bin", "**", u[i], c(4)) for i in range(n)], coupled),
        "cosh": add(*[("un", "cosh", mul(c(1.0 + 0.5 * i), u[i])) for i in range(n)]),
    }
    return out


def vector_objectives():
    """The coupled QP written with vector nodes over a size-3 VectorVariable (optimum at x*)."""
    v = ("vvar", "w", 3)
    d = ("vbin", "-", v, ("arr", tuple(XSTAR[3])))
    Q = ("arr2", QS[3])
    return {
        "QuadraticForm": add(("qform", d, Q), c(0.5)),
        "dot(matmul(Q,x))": add(("dot", d, ("matmulf", Q, d)), c(0.5)),
        "x.dot(Q@x)": add(("dot", v, ("mv", Q, v)), ("mm", ("arr", tuple(-2.0 * sum(QS[3][i][j] * XSTAR[3][j] for j in range(3)) for i in range(3))), v)),
        "dot+pow": add(("dot", d, d), ("sum", ("vbin", "**", d, c(4)))),
    }, [f"w[{i}]" for i in range(3)]


def constraint_sets(vs, xs, av):
    lin = add(*[mul(c(a), v) for a, v in zip(av, vs)])
    at = sum(a * x for a, x in zip(av, xs))
    sqn = add(*[("bin", "**", v, c(2)) for v in vs])
    r2 = sum(x * x for x in xs)
    return {
        "none": (),
        "ineq-inactive": (("cmp", "<=", lin, c(at + 1.0)),),
        "ineq-weakly-active": (("cmp", ">=", lin, c(at)),),
        "ineq-active": (("cmp", ">=", lin, c(at + 0.75)),),
        "eq-through": (("cmp", "==", lin, c(at)),),
        "eq-moving": (("cmp", "==", lin, c(at - 0.5)),),
        "ineq+eq": (("cmp", "<=", c(at - 1.0), lin), ("cmp", "==", sub(vs[0], c(xs[0] + 0.25)), c(0))),
        "nonlinear-ineq": (("cmp", "<=", sqn, c(r2 * 0.64 + 0.01)),),
        **({"subset-row": (("cmp", ">=", add(vs[0], mul(c(3.0), vs[1])), c(xs[0] + 3.0 * xs[1] + 0.5)),),
            # a uniform sum of squares over a strict subset of the variables (gradient row = one constant times the
            # variables it mentions, zero elsewhere), as inequality and next to a slack-like equality
            "ball-on-subset": (("cmp", "<=", add(("bin", "**", vs[0], c(2)), ("bin", "**", vs[1], c(2))),
                                c(0.64 * (xs[0] ** 2 + xs[1] ** 2) + 0.01)),),
            "ball-on-subset+eq": (("cmp", "<=", add(("bin", "**", vs[1], c(2)), ("bin", "**", vs[2], c(2))),
                                   c(0.64 * (xs[1] ** 2 + xs[2] ** 2) + 0.01)),
                                  ("cmp", "==", add(vs[0], vs[2]), c(xs[0] + xs[2] - 0.25)))} if len(vs) >= 3 else {}),
    }


def vector_constraint_sets(V, xs):
    """rows in VECTOR form over one VectorVariable: several rows with the same sense and right-hand side that differ
    only in their coefficient data, and a matrix-vector row block"""
    a1, a2 = (1.0, 0.0, 1.0), (0.0, -1.0, 1.0)
    b = max(sum(a * x for a, x in zip(a1, xs)), sum(a * x for a, x in zip(a2, xs))) + 0.5
    A = ("arr2", (tuple(-t for t in a1), tuple(-t for t in a2)))
    return {
        "two-LC-rows-same-rhs": (("cmp", ">=", ("mm", ("arr", a1), V), c(b)), ("cmp", ">=", ("mm", ("arr", a2), V), c(b))),
        "A@w<=rhs": (("cmp", "<=", ("mv", A, V), ("arr", (-b, -b))),),
        "two-dot-rows-same-rhs": (("cmp", "<=", ("dot", V, ("arr", tuple(-t for t in a1))), c(-b)),
                                  ("cmp", "<=", ("dot", V, ("arr", tuple(-t for t in a2))), c(-b))),
    }


def bounds_sets(names, xs):
    return {
        "none": (),
        "inactive": tuple((nm, (("lb", x - 3.0), ("ub", x + 2.0))) for nm, x in zip(names, xs)),
        "clamping": tuple((nm, (("lb", x + 0.25), ("ub", x + 2.0))) if i == 0 else (nm, (("lb", x - 3.0),))
                          for i, (nm, x) in enumerate(zip(names, xs))),
    }


def all_cases(tier):
    idx = 0
    for n in (1, 2, 3):
        names = NAMES[n]
        vs = [("var", nm) for nm in names]
        for (on, obj), (cn, cons), (bn, bnds) in itertools.product(
                objectives(n).items(), constraint_sets(vs, XSTAR[n], AV[n]).items(),
                bounds_sets(names, XSTAR[n]).items()):
            for sense in ("min", "max"):
                o = obj if sense == "min" else ("un", "neg", obj)
                pr = PR.prob(sense, o, cons, bnds)
                methods = ["auto", "SLSQP", "trust-constr"] + (["L-BFGS-B"] if not cons else [])
                for m in methods:
                    yield idx, (n, on, cn, bn, sense), pr, m
                    idx += 1
    vobjs, vnames = vector_objectives()
    vs = [("idx", ("vvar", "w", 3), i) for i in range(3)]
    vcons = dict(constraint_sets(vs, XSTAR[3], AV[3]))
    vcons.update(vector_constraint_sets(("vvar", "w", 3), XSTAR[3]))
    for (on, obj), (cn, cons), (bn, bnds) in itertools.product(
            vobjs.items(), vcons.items(),
            {"none": (), "box": (("w", (("lb", -4.0), ("ub", 4.0))),)}.items()):
        for sense in ("min", "max"):
            o = obj if sense == "min" else ("un", "neg", obj)
            pr = PR.prob(sense, o, cons, bnds)
            for m in ["auto", "SLSQP", "trust-constr"] + (["L-BFGS-B"] if not cons else []):
                yield idx, (3, on, cn, bn, sense), pr, m
                idx += 1


def shards(tier, seed):
    return [(i, NSH) for i in range(NSH)]


def expected_auto(pr, P):
    """Documented decision tree for method='auto' on non-linear problems."""
    if not pr[3]:
        return {"L-BFGS-B"}
    return {"SLSQP", "trust-constr"}


def prelude_objective(pr):
    """another objective for the same constraints: the variables the constraints mention plus a new one (zz sorts
    last) - replacing it by pr's objective changes the variable set (and, for subset rows, keeps its size)"""
    from mc.interp import var_names as _vn

    names = sorted({nm for cn in pr[3] for nm in _vn(cn[2]) + _vn(cn[3])})
    o = ("bin", "**", sub(("var", "zz"), c(1.0)), c(2))
    for nm in names:
        o = add(o, ("bin", "**", ("var", nm), c(2)))
    return o


def check_case(pr, method, rep=None, want=None, user_x0=False, warm=False):
    fails = Fails(want)
    try:
        if warm:
            # NON-INITIAL problem object: solved once with another objective over another variable set, then the
            # objective is replaced through minimize / maximize - everything below must hold for the replaced model
            import warnings as _w

            pr0 = ("prob", pr[1], prelude_objective(pr) if pr[1] == "min" else ("un", "neg", prelude_objective(pr))) + tuple(pr[3:])
            P, b, built = PR.build_problem(pr0)
            with _w.catch_warnings():
                _w.simplefilter("ignore")
                try:
                    P.solve(**({} if method == "auto" else {"method": method}))
                except Exception:
                    pass
            (P.minimize if pr[1] == "min" else P.maximize)(b.build(pr[2]))
        else:
            P, b, built = PR.build_problem(pr)
    except Exception as ex:
        fails.add("exception:build:" + type(ex).__name__, msg=str(ex)[:200])
        return fails
    names = PR.problem_var_names(pr)
    if rep:
        rep.states += 1
        rep.transitions += size(pr[2]) + 1
    kwargs = {} if method == "auto" else {"method": method}
    ux0 = None
    if user_x0:
        ux0 = np.array([0.3 + 0.1 * i for i in range(len(names))])
        lo = [PR.declared_bounds(pr, nm)[0] for nm in names]
        ux0 = np.array([max(x, l + 0.1) if l is not None else x for x, l in zip(ux0, lo)])
        kwargs["x0"] = ux0
    try:
        with Seam() as s:
            sol = P.solve(**kwargs)
    except Exception as ex:
        fails.add("exception:solve:" + type(ex).__name__, method=method, msg=str(ex)[:200])
        return fails
    mins = [cl for cl in s.calls if cl.kind == "minimize"]
    if not mins:
        fails.add("no-minimize-call", calls=[cl.kind for cl in s.calls], method=method)
        return fails
    call = mins[0]
    kw = call.kw
    used = kw.get("method")
    if rep:
        rep.outcomes["method:%s->%s" % (method, used)] += 1
    if method == "auto":
        if used not in expected_auto(pr, P):
            fails.add("auto-method", got=used, expected=sorted(expected_auto(pr, P)))
    elif used != method:
        fails.add("method-not-passed-through", got=used, expected=method)
    # ---- part 1: wiring (exact)
    if [v.name for v in P.variables] != names:
        fails.add("variable-order", got=[v.name for v in P.variables], expected=names)
        return fails
    CAP.check_objective(kw, pr, names, fails, rep)
    if used in CAP.HESSIAN_METHODS and kw.get("hess") is None:
        fails.add("hessian-not-passed", method=used)
    exp_bounds = CAP.check_bounds(kw, pr, names, used, fails)
    CAP.check_x0(kw, exp_bounds, fails, ux0)
    CAP.check_constraints(kw, pr, names, fails, rep)
    # ---- warm object: a second solve of the same problem must hand over the same (correct) model
    if not user_x0:
        try:
            with Seam() as s2:
                P.solve(**kwargs)
            m2 = [cl for cl in s2.calls if cl.kind == "minimize"]
            if m2:
                f2 = Fails()
                CAP.check_objective(m2[0].kw, pr, names, f2, rep)
                CAP.check_bounds(m2[0].kw, pr, names, m2[0].kw.get("method"), f2)
                CAP.check_constraints(m2[0].kw, pr, names, f2, rep)
                for k_, d_ in f2:
                    fails.add(k_ + ":repeat", **d_)
            if rep:
                rep.transitions += 1
        except Exception as ex:
            fails.add("exception:repeat-solve:" + type(ex).__name__, method=method, msg=str(ex)[:200])
    # ---- part 2: end to end against the raw call
    fun, jac, hess, cons = CAP.reference_callables(pr, names)
    try:
        raw = scipy.optimize.minimize(
            fun=fun, x0=np.asarray(kw["x0"], dtype=float), method=used, jac=jac,
            hess=hess if used in CAP.HESSIAN_METHODS else None,
            bounds=exp_bounds if used in CAP.BOUNDS_METHODS else None, constraints=cons if cons else ())
    except Exception as ex:
        if rep:
            rep.skipped["raw-raised:" + type(ex).__name__] += 1
        return fails
    if rep:
        rep.transitions += 1
    feasible_raw = all((cd["fun"](raw.x) >= -1e-6) if cd["type"] == "ineq" else abs(cd["fun"](raw.x)) <= 1e-6 for cd in cons)
    if not (raw.success and feasible_raw):
        if rep:
            rep.skipped["raw-did-not-converge"] += 1
        return fails
    if rep:
        rep.nt((pr, method))
        rep.evaluations += 3
        rep.outcomes["optyx-status:" + sol.status.value] += 1
    if len(mins) > 1:
        if rep:
            rep.outcomes["retry"] += 1
    if sol.status.value != "optimal":
        fails.add("raw-converged-but-optyx-not-optimal", method=used, status=sol.status.value, message=sol.message[:120],
                  raw_x=raw.x, raw_fun=float(raw.fun))
        return fails
    f_raw = float(raw.fun)                       # min-form value
    f_opt = sol.objective_value if pr[1] == "min" else -sol.objective_value
    if abs(f_opt - f_raw) > 1e-6 * (1 + abs(f_raw)):
        fails.add("objective-differs-from-raw-scipy", method=used, got=f_opt, raw=f_raw, values=sol.values, raw_x=raw.x)
    xo = np.array([sol.values[nm] for nm in names])
    if np.max(np.abs(xo - raw.x)) > 1e-4 * (1 + np.max(np.abs(raw.x))) * (10 if used == "trust-constr" else 1):
        fails.add("point-differs-from-raw-scipy", method=used, got=xo, raw=raw.x)
    return fails


OPTION_METHODS = ("auto", "SLSQP", "trust-constr", "L-BFGS-B", "TNC", "Nelder-Mead", "COBYLA", "BFGS")


def _answer(call):
    from mc.seams import result

    return result(np.asarray(call.kw["x0"], dtype=float), fun=0.0)


def _options_seen(P, **kw):
    """(options, tol) handed to the back-end by one solve whose back-end call is answered by the environment"""
    import warnings as _w

    with _w.catch_warnings():
        _w.simplefilter("ignore")
        with Seam(script=[_answer] * 4, passthrough=False) as s:
            P.solve(**kw)
    mins = [cl for cl in s.calls if cl.kind == "minimize"]
    if not mins:
        return None
    o = mins[0].kw.get("options")
    return (dict(o) if o else {}), mins[0].kw.get("tol")


def check_option_history(pr, method, rep=None, want=None):
    """Per-call solver options are per call: a plain solve hands over no iteration cap or tolerance of its own making, a
    solve with maxiter / tol hands over exactly those, and a LATER plain solve - of the same problem object and of a
    freshly built one - hands over what the first plain solve did."""
    fails = Fails(want)
    kw = {} if method == "auto" else {"method": method}
    try:
        P1, _, _ = PR.build_problem(pr)
        first = _options_seen(P1, **kw)
        P2, _, _ = PR.build_problem(pr)
        capped = _options_seen(P2, maxiter=2, tol=1e-2, **kw)
        again_same = _options_seen(P2, **kw)
        again_first = _options_seen(P1, **kw)
        P3, _, _ = PR.build_problem(pr)
        fresh = _options_seen(P3, **kw)
    except Exception as ex:
        fails.add("exception:option-history:" + type(ex).__name__, method=method, msg=str(ex)[:200])
        return fails
    if rep:
        rep.states += 1
        rep.transitions += 5
        rep.evaluations += 5
    if None in (first, capped, again_same, again_first, fresh):
        return fails
    if "maxiter" in first[0] or first[1] is not None:
        fails.add("plain-solve-hands-over-options-the-user-did-not-give", method=method, options=first[0], tol=first[1])
    if capped[0].get("maxiter") != 2 or capped[1] != 1e-2:
        fails.add("explicit-options-not-passed-through", method=method, options=capped[0], tol=capped[1])
    for lab, got in (("same-problem", again_same), ("first-problem", again_first), ("fresh-problem", fresh)):
        if got != first:
            fails.add("options-of-an-earlier-solve-leak:" + lab, method=method, got=got, expected=first)
            break
    return fails


def explore(item, tier, seed):
    i, n = item
    rep = Report()
    if i == 0 or tier == "thorough":
        # option histories: first thing in the worker (an option leak is process-global state)
        seen_ = set()
        for idx, lab, pr, m in all_cases(tier):
            if (lab[1], bool(pr[3])) in seen_ or len(seen_) >= (4 if tier == "quick" else 12):
                continue
            seen_.add((lab[1], bool(pr[3])))
            for m_ in OPTION_METHODS:
                for k, d in check_option_history(pr, m_, rep):
                    rep.violation(k, {"label": lab, "problem": pr, "method": m_, "options": True}, **d)
    for idx, lab, pr, m in all_cases(tier):
        if idx % n != i:
            continue
        fs = check_case(pr, m, rep, user_x0=(idx % 11 == 0))
        seen = set()
        for k, d in fs:
            if k not in seen:
                seen.add(k)
                rep.violation(k, {"label": lab, "problem": pr, "method": m, "user_x0": idx % 11 == 0}, **d)
        if not fs and pr[3] and m in ("auto", "SLSQP") and lab[3] != "clamping" and (tier == "thorough" or lab[2] in ("subset-row", "ineq-active", "two-LC-rows-same-rhs")):
            for k, d in check_case(pr, m, rep, warm=True):
                if k not in seen:
                    seen.add(k)
                    rep.violation(k + ":after-objective-replacement", {"label": lab, "problem": pr, "method": m, "warm": True}, **d)
        if rep.states % 101 == 1:
            rep.sample({"label": lab, "method": m, "problem": pr})
    return rep


def culprit(v):
    lab = v["case"]["label"]
    return {"kind": v["kind"], "method": v["case"]["method"], "objective": lab[1], "constraints": lab[2],
            "bounds": lab[3], "sense": lab[4]}


def replay(art):
    case = art["violation"]["case"]
    if case.get("options"):
        return [{"kind": k, "detail": d} for k, d in check_option_history(detuple(case["problem"]), case["method"], None, want=art["culprit"]["kind"])]
    if case.get("warm"):
        kind = art["culprit"]["kind"].replace(":after-objective-replacement", "")
        fs = check_case(detuple(case["problem"]), case["method"], None, want=kind, warm=True)
        return [{"kind": k + ":after-objective-replacement", "detail": d} for k, d in fs]
    fs = check_case(detuple(case["problem"]), case["method"], None, want=art["culprit"]["kind"],
                    user_x0=case.get("user_x0", False))
    return [{"kind": k, "detail": d} for k, d in fs]
