"""C11  vector and matrix modelling operations denote their NumPy counterparts; bad shapes are rejected."""

from __future__ import annotations

import itertools

from checks.common import Fails, Report, detuple, np
from mc.build import Builder, evaluate_any
from mc.interp import ShapeError, kind_of, var_names, natural_key, element_names
from mc.minimise import minimise, size
from mc.oracle import ref_value

ID = "C11"
LEVEL = "model_checking"
RULE = (
    "states = construction recipes over vector variables of sizes 1..6 and matrices up to 3x3 (1xn, nx1, symmetric; several different views of one container object inside one recipe; typed constant data; scalar optyx expressions as operands): "
    "views (every slice over start/stop in {None,0,1,2,-1,-2} and step in {None,1,2,-1}, rows, columns, "
    "sub-matrices, diagonal, T, T.T, views of views), element-wise + - * / ** with vectors, Python / NumPy scalars, "
    "lists and arrays in both operand orders, unary minus, the 10 vectorised functions, v**k and f(v) nodes used as "
    "operands, reductions (sum, vector_sum, builtin sum, dot, @ in all operand kinds, A@v, matmul, M@v, norms, "
    "quadratic_form, x.dot(A@x) with same object / same name / different vectors, trace, diag, diag_matrix, "
    "frobenius_norm, M.sum()), compositions of up to 2 (quick) / 3 (thorough) vector-level operations, and "
    "shape-mismatched operand pairs for every binary operation and two-operand reduction.  transitions = builder "
    "API calls on the real code; an evaluation = built.evaluate(values) compared entry-wise with the reference "
    "interpreter for 3 value assignments with pairwise distinct entries; a recipe the reference rejects "
    "(incompatible shapes, empty slice) must raise at build time; optyx rejecting more than NumPy is accepted "
    "and counted.  Non-trivial = recipe that was built and evaluated; distinct by canonical recipe."
)
ASSUMPTIONS = ["NumPy semantics as implemented by mc/interp.py (lists of scalars); tolerance 1e-9 relative"]

SL = (None, 0, 1, 2, -1, -2)
ST = (None, 1, 2, -1)
FUN = ("sin", "cos", "tan", "exp", "log", "abs", "sqrt", "sinh", "cosh", "tanh")


def vec(n, name="v"):
    return ("vvar", name, n)


def arr(n, off=0):
    return ("arr", tuple(float(0.5 * (i + 1 + off)) * (-1 if (i + off) % 3 == 2 else 1) for i in range(n)))


def lst(n):
    return ("lst", tuple(float(i + 1) for i in range(n)))


def typed(n):
    """constant data in other NumPy dtypes / as Python ints (values exactly representable)"""
    ints = tuple((i + 1) * (-1 if i % 3 == 2 else 1) for i in range(n))
    nonneg = tuple(i + 2 for i in range(n))
    bits = tuple((i + 1) % 2 for i in range(n))
    halves = tuple(0.5 * (i + 1) * (-1 if i % 2 else 1) for i in range(n))
    return [("arr", ints, "int"), ("arr", ints, "int32"), ("arr", nonneg, "uint8"), ("arr", bits, "bool"), ("arr", halves, "float32"),
            ("lst", ints)]


def mat(r, c_, name="M", sym=False):
    return ("mvar", name, r, c_, sym)


def arr2(r, c_, off=0):
    return ("arr2", tuple(tuple(float((i * c_ + j + 1 + off) * (0.5 if (i + j) % 2 else -1.0)) for j in range(c_)) for i in range(r)))


SCAL = [("c", 2), ("c", -0.5), ("k", 2.0, "np64"), ("k", 3, "npi"), ("k", 0.5, "a0"),
        # scalar optyx expressions as the non-vector operand (broadcast like a NumPy scalar, or rejected)
        ("var", "s"), ("bin", "+", ("var", "s"), ("c", 1)), ("un", "sin", ("var", "s")), ("C", 1.5)]


def views(tier):
    sizes = (1, 3, 4) if tier == "quick" else (1, 2, 3, 4, 6)
    for n in sizes:
        v = vec(n)
        for a, b, s in itertools.product(SL, SL, ST):
            yield ("slice", v, a, b, s)
        inner = [("slice", v, None, None, -1), ("slice", v, 1, None, None), ("slice", v, None, -1, None),
                 ("slice", v, None, None, 2), ("slice", v, -2, None, None)]
        for iv in inner:
            for a, b, s in itertools.product(SL, SL, ST):
                yield ("slice", iv, a, b, s)
        for i in range(-n - 1, n + 1):
            yield ("idx", v, i)
    shapes = ((2, 2, False), (2, 3, False), (3, 3, True), (1, 3, False), (3, 1, False), (3, 3, False))
    for (r, c_, sym) in shapes:
        M = mat(r, c_, "M", sym)
        for base in (M, ("T", M), ("T", ("T", M))):
            rr, cc = (r, c_) if base[0] != "T" or base[1][0] == "T" else (c_, r)
            yield base
            for i in range(-rr, rr):
                for a, b, s in ((None, None, None), (1, None, None), (None, -1, None), (None, None, 2), (None, None, -1), (0, 1, None), (2, None, None)):
                    yield ("row", base, i, a, b, s)
            for j in range(-cc, cc):
                for a, b, s in ((None, None, None), (1, None, None), (None, None, -1), (0, 1, None)):
                    yield ("col", base, a, b, s, j)
            for r0, r1, c0, c1 in itertools.product((0, 1, None), (1, 2, None), (0, 1, None), (1, 3, None)):
                yield ("sub", base, r0, r1, c0, c1)
                # views of views: transpose / row / column / diagonal / whole-block sum of a sub-matrix
                yield ("T", ("sub", base, r0, r1, c0, c1))
                yield ("row", ("T", ("sub", base, r0, r1, c0, c1)), 0, None, None, None)
                yield ("msum", ("T", ("sub", base, r0, r1, c0, c1)))
                yield ("frob", ("sub", base, r0, r1, c0, c1))
                yield ("diag", ("sub", base, r0, r1, c0, c1), "m")
            # stepped, reversed and negative-bound sub-matrices
            for (r0, r1, rs), (c0, c1, cs) in itertools.product(
                    ((None, None, 2), (None, None, -1), (-2, None, None), (None, -1, None), (1, None, 2), (None, None, None)), repeat=2):
                yield ("sub", base, r0, r1, c0, c1, rs, cs)
                yield ("msum", ("sub", base, r0, r1, c0, c1, rs, cs))
                yield ("T", ("sub", base, r0, r1, c0, c1, rs, cs))
                yield ("frob", ("sub", base, r0, r1, c0, c1, rs, cs))
            yield ("diag", base, "f")
            yield ("diag", base, "m")
            for i in range(rr):
                for j in range(cc):
                    yield ("midx", base, i, j)
            yield ("midx", base, -1, -1)
            yield ("trace", base, "f")
            yield ("trace", base, "m")
            yield ("frob", base)
            yield ("msum", base)
            yield ("slice", ("row", base, 0, None, None, None), None, None, -1)
            yield ("sum", ("col", base, None, None, None, 0))
        yield ("msum", ("sub", M, 0, 2, 0, 2))


def vpool(tier):
    """Level-0 vectors used as operands."""
    v3, w3, v4, v1 = vec(3), vec(3, "w"), vec(4), vec(1)
    M23 = mat(2, 3, "B")
    S = mat(3, 3, "S", True)
    return [v3, w3, v4, v1, ("slice", v4, 1, None, None), ("slice", v3, None, None, -1), ("slice", v4, None, None, 2),
            ("row", M23, 1, None, None, None), ("col", S, None, None, None, 1), ("diag", S, "m"),
            ("fresh", 1, ("slice", v3, 0, 3, None)), vec(2, "t")]


def elementwise(pool, tier):
    """Level-1: one element-wise operation on a pool vector (all operand kinds and orders)."""
    for u in pool:
        yield ("vneg", u)
        for f in FUN:
            yield ("vun", f, u)
        for k in (2, 3, 0.5, -1, 0, 1):
            yield ("vpow", u, k)
        for op in ("+", "-", "*", "/", "**"):
            for s in SCAL:
                yield ("vbin", op, u, s)
                yield ("rvbin", op, s, u)
            for n in (1, 2, 3, 4):
                yield ("vbin", op, u, arr(n))
                yield ("rvbin", op, arr(n), u)
                yield ("vbin", op, u, lst(n))
                yield ("rvbin", op, lst(n), u)
            for w in pool:
                yield ("vbin", op, u, w)
    # elementwise nodes (v**k, f(v)) used as operands of further arithmetic
    v3, w3 = vec(3), vec(3, "w")
    for node in (("vpow", v3, 2), ("vun", "sin", v3)):
        for op in ("+", "-", "*", "/"):
            for other in (v3, w3, ("c", 2), arr(3), ("vbin", "+", w3, ("c", 1)), node):
                yield ("vbin", op, node, other)
                yield ("vbin", op, other, node) if other[0] != "c" else ("rvbin", op, other, node)
            # ... and as the RIGHT operand of a vector (sizes 3 = fits, 4 = must be rejected)
            for other in (v3, w3, ("vbin", "+", w3, ("c", 1)), vec(4), ("slice", vec(4), 1, None, None)):
                yield ("vbin", op, other, node)


def reductions(vectors, tier):
    Q = {n: arr2(n, n) for n in (1, 2, 3, 4)}
    A = {n: arr2(2, n, 1) for n in (1, 2, 3, 4)}
    Mv = {2: mat(3, 2, "G"), 3: mat(2, 3, "H"), 1: mat(2, 1, "J"), 4: mat(2, 4, "K")}
    for u in vectors:
        yield ("sum", u)
        yield ("vsum", u)
        yield ("psum", u)
        yield ("norm", u, 1, "f")
        yield ("norm", u, 2, "f")
        yield ("norm", u, 2, "m")
        yield ("norm", u, 3, "f")
        for n in (1, 2, 3, 4):
            yield ("mm", arr(n), u)
            yield ("mm", u, arr(n))
            yield ("mm", lst(n), u)
            yield ("mm", u, lst(n))
            yield ("LC", arr(n), u)
            yield ("dot", u, arr(n))
            for d in typed(n):
                yield ("mm", d, u)
                yield ("mm", u, d)
                yield ("dot", u, d)
                if d[0] == "arr":
                    yield ("LC", d, u)
                yield ("sum", ("vbin", "*", u, d))
                yield ("sum", ("rvbin", "-", d, u))
            yield ("dot", u, lst(n))
            yield ("qform", u, Q[n])
            yield ("QF", u, Q[n])
            yield ("mv", A[n], u)
            yield ("matmulf", A[n], u)
            yield ("dot", u, ("mv", Q[n], u))
            yield ("Mv", Mv[n], u)
        yield ("qform", u, arr2(2, 3))
        yield ("diagm", u)


def pair_reductions(vectors, tier):
    Q3 = arr2(3, 3)
    for u, w in itertools.product(vectors, repeat=2):
        yield ("dot", u, w)
        yield ("mm", u, w)
        yield ("dot", u, ("mv", Q3, w))
        yield ("dot", u, ("matmulf", Q3, w))


def matrix_ops(tier):
    M, N = mat(2, 2, "M"), mat(2, 2, "N")
    B = mat(2, 3, "B")
    S = mat(3, 3, "S", True)
    mats = [M, N, B, S, ("T", B), ("T", M), ("sub", S, 0, 2, 0, 2), ("diagm", vec(2, "t"))]
    datas = [arr2(2, 2), arr2(2, 3), arr2(3, 3), ("lst2", ((1.0, 2.0), (3.0, 4.0))), arr(2)]
    # the same data in other memory layouts (Fortran order, transposed / strided / negative-stride views) and dtypes
    datas += [d + (lay,) for d in (arr2(2, 2), arr2(2, 3), arr2(3, 3)) for lay in ("F", "T", "strided", "rev")]
    datas += [("arr2", ((1, -2, 3), (4, 5, -6)), "int"), ("arr2", ((1, 0), (0, 1)), "bool")]
    for X in mats:
        yield ("mneg", X)
        for op in ("+", "-", "*", "/", "**"):
            for s in SCAL:
                yield ("mbin", op, X, s)
                yield ("rmbin", op, s, X)
            for D in datas:
                yield ("mbin", op, X, D)
                yield ("rmbin", op, D, X)
            for Y in mats:
                yield ("mbin", op, X, Y)
    level1 = [("mbin", "+", M, ("c", 1)), ("mbin", "*", M, N), ("mbin", "-", B, arr2(2, 3)), ("mneg", S),
              ("rmbin", "-", arr2(2, 2), M), ("mbin", "/", S, ("c", 2)), ("mbin", "**", M, ("c", 2))]
    for X in level1:
        yield ("msum", X)
        yield ("T", X)
        yield ("msum", ("T", X))
        yield ("midx", X, 1, 0)
        yield ("midx", ("T", X), 1, 0)
        yield ("mbin", "+", X, X)
        yield ("mbin", "*", X, ("c", 3))
        yield ("rmbin", "/", ("c", 1), X)
        yield ("mneg", X)
        yield ("msum", ("mbin", "*", X, M))


def same_container_views():
    """several DIFFERENT views of the same row / column / vector of ONE container object inside one recipe (the builder
    shares the container object), including pairs whose sizes differ and must be rejected"""
    M = mat(3, 3, "M")
    B = mat(2, 3, "B")
    v5 = vec(5)
    pairs = []
    for base, i in ((M, 0), (M, 2), (B, 1), (("T", M), 1)):
        r01, r12, rall, r02 = (("row", base, i, 0, 2, None), ("row", base, i, 1, 3, None), ("row", base, i, None, None, None),
                               ("row", base, i, 0, 3, 2))
        pairs += [(r01, r12), (r12, r01), (rall, r12), (r01, rall), (r02, r01), (r01, r02)]
    for base, j in ((M, 1), (B, 2)):
        n = 3 if base is M else 2
        c0, c1, call = ("col", base, 0, n - 1, None, j), ("col", base, 1, n, None, j), ("col", base, None, None, None, j)
        pairs += [(c0, c1), (c1, c0), (call, c0)]
    pairs += [(("slice", v5, None, None, 3), ("slice", v5, None, None, 4)), (("slice", v5, None, None, 4), ("slice", v5, None, None, 3)),
              (("slice", v5, 0, 4, 2), ("slice", v5, 0, 4, None)), (("slice", v5, None, None, None), ("slice", v5, None, None, -1))]
    for a, b_ in pairs:
        yield ("dot", a, b_)
        yield ("vbin", "+", a, b_)
        yield ("vbin", "*", a, b_)
        yield ("bin", "-", ("sum", a), ("sum", b_))
        yield ("sum", ("vbin", "-", a, b_))
        yield ("bin", "+", ("norm", a, 2, "m"), ("norm", b_, 1, "m"))
        yield b_
        yield ("sum", ("vpow", b_, 2))


def all_recipes(tier):
    yield from views(tier)
    pool = vpool(tier)
    lvl1 = list(elementwise(pool, tier))
    yield from lvl1
    yield from reductions(pool, tier)
    keep1 = [r for k, r in enumerate(lvl1) if k % (7 if tier == "quick" else 2) == 0]
    yield from reductions(keep1, tier)
    small = pool[:6] + [("vbin", "+", vec(3), ("c", 1)), ("vbin", "*", vec(3), vec(3, "w")), ("vneg", vec(4)),
                        ("rvbin", "-", arr(3), vec(3)), ("vun", "exp", vec(3, "w")), ("vpow", vec(3), 2)]
    yield from pair_reductions(small, tier)
    lvl2_src = keep1[:: (5 if tier == "quick" else 2)]
    lvl2 = list(elementwise(lvl2_src[:40] if tier == "quick" else lvl2_src[:200], tier))
    yield from lvl2[:: (3 if tier == "quick" else 1)]
    yield from matrix_ops(tier)
    yield from same_container_views()


NSH = 48


def shards(tier, seed):
    return [(i, NSH) for i in range(NSH)]


def assignments(names):
    """3 value assignments with pairwise distinct entries (dyadic)."""
    n = len(names)
    out = {}
    for j, nm in enumerate(names):
        out[nm] = np.array([0.25 * (j + 1) * (-1.0) ** j, 0.125 * (2 * j + 3), -0.5 * (j + 1) + 0.125 * (j % 3)])
    return out, 3


def check_recipe(r, tier, seed, rep=None, want=None):
    fails = Fails(want)
    names = None
    expect_reject = False
    try:
        names = var_names(r)
        pts, P = assignments(names)
        ref, ok, err = ref_value(r, pts, P, {})
    except (ShapeError, IndexError):
        expect_reject = True
    except Exception as ex:
        if rep:
            rep.skipped["reference-error:" + type(ex).__name__] += 1
        return fails
    if rep:
        rep.states += 1
        rep.transitions += size(r)
    b = Builder()
    try:
        obj = b.build(r)
    except Exception as ex:
        if rep:
            rep.outcomes[("rejected-as-expected:" if expect_reject else "rejected-though-numpy-accepts:") + type(ex).__name__] += 1
            rep.skipped["rejected_at_build"] += 1
        return fails
    if expect_reject:
        fails.add("incompatible-shapes-accepted", built=type(obj).__name__)
        return fails
    if rep:
        rep.nt(r)
        rep.outcomes["built:" + type(obj).__name__] += 1
    zero_fill = {}
    for o_ in [obj] + list(b.memo.values()):
        if type(o_).__name__ != "MatrixVariable":
            continue
        for row in o_._variables:
            for var in row:
                if var.name.startswith("_diag_"):      # diag_matrix: documented as fixed at zero through its bounds
                    zero_fill[var.name] = 0.0
                    if not (var.lb == 0 and var.ub == 0):
                        fails.add("diag_matrix-off-diagonal-not-fixed-at-zero", variable=var.name, lb=var.lb, ub=var.ub)
    # the user's values mapping is ONE dict object updated in place between evaluations (a loop over scenarios), and
    # every assignment is evaluated twice
    live = {}
    for k in np.flatnonzero(np.asarray(ok).reshape(-1)[:P] if np.ndim(ok) else [ok]):
        vals = {nm: float(pts[nm][k]) for nm in names}
        live.update(vals)
        live.update(zero_fill)
        if rep:
            rep.evaluations += 1
        try:
            got = evaluate_any(obj, live)
            again = evaluate_any(obj, live)
            try:
                same = np.array_equal(np.asarray(got, dtype=float), np.asarray(again, dtype=float), equal_nan=True)
            except Exception:
                same = True
            if not same:
                fails.add("second-evaluation-of-the-same-assignment-differs", values=vals, first=got, second=again)
                break
        except Exception as ex:
            fails.add("built-but-unevaluable:" + type(ex).__name__, values=vals, msg=str(ex)[:200], built=type(obj).__name__)
            break
        exp = ref[..., k]
        e = err[..., k]
        try:
            got = np.asarray(got, dtype=float) if not isinstance(got, (float, int)) else np.float64(got)
        except Exception as ex:
            fails.add("evaluates-to-non-numeric:" + type(ex).__name__, values=vals, built=type(obj).__name__, msg=str(ex)[:150])
            break
        if np.shape(got) != np.shape(exp):
            fails.add("shape", got=np.shape(got), expected=np.shape(exp), built=type(obj).__name__)
            break
        with np.errstate(all="ignore"):
            bad = ~(np.abs(got - exp) <= 1e-9 * np.maximum(1.0, np.maximum(np.abs(got), np.abs(exp))) + e)
        if np.any(bad):
            fails.add("value", values=vals, got=got, expected=exp, built=type(obj).__name__)
            break
    return fails


def extra_checks(rep):
    """to_numpy / rows_iter / cols_iter / symmetric sharing: direct API facts checked against the naming scheme."""
    import optyx

    fails = Fails()
    for (r, c_, sym) in ((2, 3, False), (3, 3, True), (1, 3, False)):
        M = optyx.MatrixVariable("A", r, c_, symmetric=sym)
        from mc.interp import mat_names

        nm = mat_names("A", r, c_, sym)
        vals = {n: 0.5 * k - 1 for k, n in enumerate(sorted({x for row in nm for x in row}))}
        exp = np.array([[vals[n] for n in row] for row in nm])
        rep.transitions += 4
        rep.evaluations += 4
        if not np.array_equal(M.to_numpy(vals), exp):
            fails.add("to_numpy", shape=(r, c_, sym))
        rows = [[v.name for v in row] for row in M.rows_iter()]
        cols = [[v.name for v in col] for col in M.cols_iter()]
        if rows != nm or cols != [list(x) for x in zip(*nm)]:
            fails.add("rows_iter/cols_iter", shape=(r, c_, sym), rows=rows, cols=cols)
        if [[v.name for v in row] for row in M] != nm or len(M) != r:
            fails.add("matrix-iteration", shape=(r, c_, sym))
        if sym and any(M[i, j] is not M[j, i] for i in range(r) for j in range(c_)):
            fails.add("symmetric-sharing", shape=(r, c_))
    v = optyx.VectorVariable("x", 5)
    vals = {f"x[{i}]": 0.25 * i - 0.5 for i in range(5)}
    if not np.array_equal(v[1:4].to_numpy(vals), np.array([vals[f"x[{i}]"] for i in (1, 2, 3)])):
        fails.add("vector-to_numpy")
    rep.states += 1
    return fails


def explore(item, tier, seed):
    i, n = item
    rep = Report()
    seen_r = set()
    for k, r in enumerate(all_recipes(tier)):
        if k % n != i or r in seen_r:
            continue
        seen_r.add(r)
        fs = check_recipe(r, tier, seed, rep)
        seen = set()
        for kind, d in fs:
            if kind not in seen:
                seen.add(kind)
                rep.violation(kind, {"recipe": r}, **d)
        if rep.states % 499 == 1:
            rep.sample({"recipe": r})
    if i == 0:
        for kind, d in extra_checks(rep):
            rep.violation(kind, {"recipe": ("api", kind)}, **d)
    return rep


def _elementwise_operand(r):
    """(outer head, node, position) when an ElementwisePower / ElementwiseUnary node (v**k, f(v) over a plain vector
    variable or view) is used as an operand of another vector-level operation."""
    from optyx.core.vectors import ElementwisePower, ElementwiseUnary
    from mc.minimise import _is_recipe

    for x in r[1:]:
        if not _is_recipe(x):
            continue
        if x[0] in ("vpow", "vun") or (x[0] == "vbin" and x[1] == "**"):
            try:
                if isinstance(Builder().build(x), (ElementwisePower, ElementwiseUnary)):
                    return r[0], x, r.index(x)
            except Exception:
                pass
        sub = _elementwise_operand(x)
        if sub:
            return sub
    return None


def culprit(v):
    from mc.minimise import subrecipes

    r = detuple(v["case"]["recipe"])
    if r[0] == "api":
        return {"kind": v["kind"], "recipe": r}
    kind = v["kind"]
    # 1. a proper sub-recipe that already fails on its own is the better culprit
    changed = True
    while changed:
        changed = False
        for s_ in sorted(set(subrecipes(r)), key=lambda t: (size(t), repr(t))):
            if s_[0] in ("arr", "lst", "arr2", "lst2", "c", "k", "C"):
                continue
            fs = check_recipe(s_, "quick", 0, None)
            if fs:
                r, kind, changed = s_, fs[0][0], True
                break
    rmin = minimise(r, lambda c_: bool(check_recipe(c_, "quick", 0, None, want=kind)))
    ew = _elementwise_operand(rmin)
    if ew:
        c = {"kind": "elementwise-node-used-as-operand", "outer": ew[0], "node": ew[1][0] if ew[1][0] != "vbin" else "vpow"}
        if ew[0] == "vbin" and ew[2] == 3 and rmin[2][0] in ("arr", "lst", "c", "k", "C"):
            c["outer"] = "rvbin"        # plain data on the left: the reflected form (array / list / scalar op node)
        elif ew[0] == "vbin" and ew[2] == 3 and _elementwise_operand(("x", rmin[2])) is None and rmin[2][0] not in ("vpow", "vun"):
            c["position"] = "right-operand-of-a-vector"     # works on the pinned tree (dedicated branch): never a known finding
        return c
    return {"kind": kind, "recipe": rmin}


def replay(art):
    r = detuple(art["culprit"]["recipe"])
    if r[0] == "api":
        rep = Report()
        return [{"kind": k, "detail": d} for k, d in extra_checks(rep)]
    fs = check_recipe(r, "quick", 0, None, want=art["culprit"]["kind"])
    return [{"kind": k, "detail": d} for k, d in fs]
