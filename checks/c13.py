"""C13  editing a model invalidates everything derived from the old model (explicit-state BFS on a real Problem)."""

from __future__ import annotations

import warnings

from checks.common import Fails, Report, detuple, np
from mc.explore import bfs, minimise_history
from mc.seams import Seam, result

ID = "C13"
LEVEL = "model_checking"
RULE = (
    "states = canonical states of one real Problem reached by operation histories over the alphabet {minimize(e), "
    "maximize(e) for e in {linear, linear', convex quadratic, non-quadratic over x, y; linear / quadratic objectives over other variable sets of equal size (a,x,y / x,y,z / a,x,z)}; subject_to(c), subject_to([c,c']) for c "
    "in {linear <=, linear >=, linear ==, nonlinear <=} (at most 2 constraints, 3 thorough); x.ub := 2|4, y.lb := "
    "0|1; solve(m) for m in {auto, linprog, highs, SLSQP, trust-constr, L-BFGS-B, Nelder-Mead (+ COBYLA, Powell in the method-order driver)}; read (.variables, .n_variables, "
    "get_bounds(), linearity decision)}.  Four closed drivers (LP<->NLP switching; constraint additions incl. "
    "nonlinear on an LP; bounds edits; sense switching with lazily added Hessian) are run to FIXPOINT and a combined "
    "driver over the full alphabet to depth 3 (quick) / 5 (thorough).  Each history is replayed on fresh real "
    "objects; canonical state = (objective, sense, constraints, bounds, and for each of the four caches: empty or "
    "the model it was built from, tracked by object identity).  transitions = last operation of each explored "
    "history executed on the real code; oracle on every solve / read transition: L1 exact - what reaches the "
    "back-end (LP arrays, sense, bounds; NLP callables at probe points, Hessian, constraints, x0, method) and the "
    "variable list, linearity decision and get_bounds() equal those of a fresh Problem built from the current "
    "objective, sense, constraints and bounds; L2 - status / objective / values equal the fresh problem's."
)
ASSUMPTIONS = [
    "future behaviour of a Problem depends only on its objective, sense, constraints, variable bounds and the four caches",
    "prefix solves are answered by a scripted back-end (caches are filled before the back-end is called), the last solve is real",
]

INIT = {"obj": None, "sense": None, "cons": (), "xub": 4.0, "ylb": 0.0, "free": False}
# every variable unbounded when the first caches are built; bounds appear (and disappear) later
INIT_FREE = {"obj": None, "sense": None, "cons": (), "xub": None, "ylb": None, "free": True}
METHODS = ("auto", "linprog", "highs", "SLSQP", "trust-constr", "L-BFGS-B", "Nelder-Mead")
OBJ_KEYS = ("L1", "L2", "Q", "N")
CON_KEYS = ("c1", "c2", "c3", "c4")


def formulas(x, y, a=None, z=None):
    import optyx

    if a is None:
        a = optyx.Variable("a", lb=0.0, ub=5.0)
    if z is None:
        z = optyx.Variable("z", lb=0.0, ub=3.0)
    objs = {
        "L1": lambda: x + 2 * y,
        "L2": lambda: 3 * x - y + 1,
        "Q": lambda: (x - 1) ** 2 + (y - 2) ** 2,
        "N": lambda: optyx.exp(0.5 * x) + (y - 1) ** 4,
        # objectives over other variable sets: same size as {x, y} + one, shifted columns, a variable dropped
        "La": lambda: a + x + y,
        "Lz": lambda: x + y + 2 * z,
        "Laz": lambda: a - x + z,
        "Qz": lambda: (x - 1) ** 2 + (z - 2) ** 2 + y,
    }
    cons = {
        "c1": lambda: x + y <= 3,
        "c2": lambda: x - y >= -1,
        "c3": lambda: (x + 2 * y).eq(2),
        "c4": lambda: x ** 2 + y ** 2 <= 4,
        # constraints that bring NEW variables into the model
        "c5": lambda: a + x <= 4,
        "c6": lambda: z >= 1,
        "c7": lambda: a + z + y <= 6,
    }
    return objs, cons


def model_key(m):
    return (m["obj"], m["sense"], m["cons"], m["xub"], m["ylb"]) + (("free",) if m.get("free") else ())


def make_vars(m):
    import optyx

    if m.get("free"):
        return optyx.Variable("x", ub=m["xub"]), optyx.Variable("y", lb=m["ylb"])
    return optyx.Variable("x", lb=0.0, ub=m["xub"]), optyx.Variable("y", lb=m["ylb"], ub=4.0)


def apply_model(m, op):
    m = dict(m)
    k = op[0]
    if k == "min":
        m["obj"], m["sense"] = op[1], "min"
    elif k == "max":
        m["obj"], m["sense"] = op[1], "max"
    elif k == "st":
        m["cons"] = m["cons"] + (op[1],)
    elif k == "stl":
        m["cons"] = m["cons"] + tuple(op[1])
    elif k == "xub":
        m["xub"] = op[1]
    elif k == "ylb":
        m["ylb"] = op[1]
    return m


def fresh_problem(m):
    import optyx

    x, y = make_vars(m)
    objs, cons = formulas(x, y)
    P = optyx.Problem()
    if m["obj"] is not None:
        (P.minimize if m["sense"] == "min" else P.maximize)(objs[m["obj"]]())
    for c in m["cons"]:
        P.subject_to(cons[c]())
    return P, x, y


_PROBES = (np.array([0.5, 1.5, 0.75, 2.5]), np.array([1.75, 0.25, 1.25, 0.5]), np.array([3.0, 2.0, 0.25, 1.0]))


def probes(n):
    return tuple(p[:n] for p in _PROBES)


def scripted(call):
    """prefix solves are answered by the environment: the all-ones point of the right dimension"""
    n = len(call.kw["c"]) if call.kind == "linprog" else len(call.kw["x0"])
    return result(np.ones(n), fun=0.0)


def call_signature(call):
    """A comparable, exact description of what one back-end call received."""
    kw = call.kw
    if call.kind == "linprog":
        def arr(a):
            return None if a is None else np.asarray(a, dtype=float).round(12).tolist()
        return ("linprog", kw.get("method"), arr(kw.get("c")), arr(kw.get("A_ub")), arr(kw.get("b_ub")), arr(kw.get("A_eq")),
                arr(kw.get("b_eq")), [tuple(None if b is None else float(b) for b in bd) for bd in (kw.get("bounds") or [])])
    sig = ["minimize", kw.get("method")]
    PROBES = probes(len(kw["x0"]))
    for p in PROBES:
        sig.append(round(float(kw["fun"](p)), 10))
        sig.append(None if kw.get("jac") is None else np.asarray(kw["jac"](p), dtype=float).round(10).tolist())
        sig.append(None if kw.get("hess") is None else np.asarray(kw["hess"](p), dtype=float).round(10).tolist())
    bd = kw.get("bounds")
    sig.append(None if bd is None else [tuple(float(b) for b in t) for t in bd])
    cons = kw.get("constraints") or ()
    cs = []
    for cd in cons:
        cs.append((cd["type"], [round(float(cd["fun"](p)), 10) for p in PROBES],
                   [np.asarray(cd["jac"](p), dtype=float).round(10).tolist() for p in PROBES]))
    sig.append(cs)
    sig.append(np.asarray(kw.get("x0"), dtype=float).round(12).tolist())
    return tuple(map(repr, sig))


def solve_observed(P, method):
    """(outcome description, list of call signatures) of a real solve under the capturing seam."""
    kw = {} if method == "auto" else {"method": method}
    with warnings.catch_warnings():
        warnings.simplefilter("ignore")
        with Seam() as s:
            try:
                sol = P.solve(**kw)
                out = ("solution", sol.status.value, sol.objective_value, dict(sol.values))
            except Exception as ex:
                out = ("raised", type(ex).__name__)
    try:
        sigs = [call_signature(c) for c in s.calls]
    except Exception as ex:
        sigs = [("signature-error", type(ex).__name__, str(ex)[:100])]
    return out, sigs


def same_outcome(a, b):
    if a[0] != b[0]:
        return False
    if a[0] == "raised":
        return a[1] == b[1]
    if a[1] != b[1]:
        return False
    if (a[2] is None) != (b[2] is None):
        return False
    if a[2] is not None and abs(a[2] - b[2]) > 1e-7 * (1 + abs(b[2])):
        return False
    if sorted(a[3]) != sorted(b[3]):
        return False
    return all(abs(a[3][k] - b[3][k]) <= 1e-6 * (1 + abs(b[3][k])) for k in b[3])


KNOWN_ATTRS = {"name", "_objective", "_sense", "_constraints", "_variables", "_solver_cache", "_lp_cache", "_is_linear_cache"}


def hidden_state(P):
    """Any attribute of the Problem the abstraction does not know about (a new cache, a memo) is part of the
    state: simple values by value, everything else by presence - so that new hidden state can never be merged away."""
    out = []
    for k, v in sorted(vars(P).items()):
        if k in KNOWN_ATTRS:
            continue
        out.append((k, repr(v) if isinstance(v, (type(None), bool, int, float, str)) else "<%s>" % type(v).__name__))
    sc = P._solver_cache
    if isinstance(sc, dict):
        out.append(("solver_cache_keys", tuple(sorted(sc))))
        # ... and the SHAPE of every cached entry (a list that one method's branch extended is another state)
        out.append(("solver_cache_shape", tuple((k, type(v).__name__, len(v) if isinstance(v, (list, tuple, dict)) else None)
                                                for k, v in sorted(sc.items()))))
    return tuple(out)


class Driver:
    def __init__(self, menu, max_cons=2, init=None):
        self.menu = menu
        self.max_cons = max_cons
        self.init = dict(init or INIT)

    def ops(self, model, hist):
        out = []
        for op in self.menu:
            k = op[0]
            if k in ("st", "stbad") and len(model["cons"]) + 1 > self.max_cons:
                continue
            if k == "stl" and len(model["cons"]) + 2 > self.max_cons:
                continue
            if k == "xub" and model["xub"] == op[1]:
                continue
            if k == "ylb" and model["ylb"] == op[1]:
                continue
            out.append(op)
        return out

    def run(self, hist):
        import optyx

        init = INIT_FREE if hist and hist[0] == ("init", "free") else self.init
        x, y = make_vars(init)
        objs0, cons = formulas(x, y)
        # the user keeps the expression object: minimize(f) ... maximize(f) re-install the SAME object
        shared = {}
        objs = {k: (lambda k=k: shared.setdefault(k, objs0[k]())) for k in objs0}
        P = optyx.Problem()
        m = dict(init)
        tags = {"_variables": None, "_solver_cache": None, "hess": None, "_lp_cache": None, "_is_linear_cache": None}
        ids = {"_variables": None, "_solver_cache": None, "_lp_cache": None}
        fails = Fails()
        n = len(hist)
        for i, op in enumerate(hist):
            last = i == n - 1
            k = op[0]
            m = apply_model(m, op)
            if k == "init":
                continue
            if k == "min":
                P.minimize(objs[op[1]]())
            elif k == "max":
                P.maximize(objs[op[1]]())
            elif k == "st":
                P.subject_to(cons[op[1]]())
            elif k == "stl":
                P.subject_to([cons[c]() for c in op[1]])
            elif k == "stbad":
                # a REJECTED edit: a list whose second element is not a constraint.  Whatever the call leaves listed in
                # P.constraints is the current model (the reference is built from what the problem itself lists)
                before = len(P.constraints)
                try:
                    P.subject_to([cons[op[1]](), "not-a-constraint"])
                    fails.add("invalid-constraint-accepted", op=op)
                except Exception:
                    pass
                if len(P.constraints) == before + 1:
                    m["cons"] = m["cons"] + (op[1],)
                elif len(P.constraints) != before:
                    fails.add("rejected-edit-left-unexpected-constraints", before=before, after=len(P.constraints))
            elif k == "xub":
                x.ub = op[1]
            elif k == "ylb":
                y.lb = op[1]
            elif k == "read":
                got = self._read(P)
                if last:
                    Pf, _, _ = fresh_problem(m)
                    exp = self._read(Pf)
                    if got != exp:
                        fails.add("read-reflects-superseded-model", got=got, expected=exp, model=model_key(m))
            elif k == "solve":
                if last:
                    out, sigs = solve_observed(P, op[1])
                    Pf, _, _ = fresh_problem(m)
                    outf, sigsf = solve_observed(Pf, op[1])
                    if sigs != sigsf:
                        d = next((j for j, (a, b) in enumerate(zip(sigs, sigsf)) if a != b), min(len(sigs), len(sigsf)))
                        fails.add("backend-model-differs-from-fresh-problem", method=op[1], model=model_key(m),
                                  n_calls=(len(sigs), len(sigsf)), first_difference=d,
                                  got=sigs[d] if d < len(sigs) else None, expected=sigsf[d] if d < len(sigsf) else None)
                    if not same_outcome(out, outf):
                        fails.add("solve-result-differs-from-fresh-problem", method=op[1], model=model_key(m), got=out,
                                  expected=outf)
                else:
                    kw = {} if op[1] == "auto" else {"method": op[1]}
                    with warnings.catch_warnings():
                        warnings.simplefilter("ignore")
                        with Seam(script=[scripted] * 3, passthrough=False):
                            try:
                                P.solve(**kw)
                            except Exception:
                                pass
            # ghost provenance of the caches (by object identity)
            mk = model_key(m)
            mk_nb = mk[:3]      # the variable list, the linearity decision and the Hessian do not depend on bounds
            for name in ("_variables", "_solver_cache", "_lp_cache"):
                obj = getattr(P, name)
                if obj is None:
                    tags[name], ids[name] = None, None
                elif ids[name] != id(obj):
                    tags[name], ids[name] = (mk_nb if name == "_variables" else mk), id(obj)
            sc = P._solver_cache
            if sc is None or "hess_fn" not in sc:
                tags["hess"] = None
            elif tags["hess"] is None:
                tags["hess"] = mk_nb
            if P._is_linear_cache is None:
                tags["_is_linear_cache"] = None
            elif tags["_is_linear_cache"] is None:
                tags["_is_linear_cache"] = (P._is_linear_cache, mk_nb)
        # bounds stored inside the two solver caches are part of their content
        final = dict(tags)
        if P._solver_cache is not None:
            final["_solver_cache"] = (tags["_solver_cache"][:3], repr(P._solver_cache.get("bounds")))
        if P._lp_cache is not None:
            final["_lp_cache"] = (tags["_lp_cache"][:3], repr(P._lp_cache.bounds))
        key = (model_key(m), tuple(sorted((k, repr(v)) for k, v in final.items())), hidden_state(P))
        return key, m, fails

    @staticmethod
    def _read(P):
        try:
            return ([v.name for v in P.variables], P.n_variables, [tuple(b) for b in P.get_bounds()], P._is_linear_problem())
        except Exception as ex:
            return ("raised", type(ex).__name__)


def S(m):
    return ("solve", m)


DRIVERS = {
    "lp-nlp-switch": dict(roots=[()], menu=[("min", "L1"), ("min", "Q"), ("max", "L2"), ("max", "N"), S("auto"), S("linprog"),
                                            S("SLSQP"), ("read",)], depth=None),
    "constraints": dict(roots=[(("min", "L1"),), (("max", "L2"),)],
                        menu=[("st", "c1"), ("st", "c3"), ("st", "c4"), ("stl", ("c1", "c2")), S("auto"), S("SLSQP"), S("highs"),
                              ("read",)], depth=None),
    "bounds": dict(roots=[(("min", "Q"),), (("min", "L1"), ("st", "c1"))],
                   menu=[("xub", 2.0), ("xub", 4.0), ("ylb", 1.0), ("ylb", 0.0), S("auto"), S("L-BFGS-B"), S("SLSQP"),
                         S("trust-constr"), S("highs"), ("read",)], depth=None),
    "free-then-bounded": dict(roots=[(("init", "free"), ("min", "Q")), (("init", "free"), ("min", "Q"), ("st", "c1"))],
                              menu=[("xub", 0.5), ("xub", None), ("ylb", 3.0), ("ylb", None), S("auto"), S("L-BFGS-B"), S("SLSQP"),
                                    S("trust-constr"), ("read",)], depth=None),
    # constraints (single and in lists, in both list positions) that introduce variables the warm model has not seen
    "new-variables-in-constraints": dict(roots=[(("max", "L1"), ("st", "c1"))], max_cons=4,
                                         menu=[("stl", ("c5", "c2")), ("stl", ("c2", "c5")), ("st", "c6"), ("stl", ("c6", "c7")),
                                               ("stl", ("c7", "c2")), S("auto"), S("SLSQP"), ("read",)], depth=None),
    # which method built the cache first: derivative-free methods need no gradient, Hessian methods add one lazily
    "method-order": dict(roots=[(("max", "Q"),), (("max", "N"), ("st", "c1")), (("min", "N"),)],
                         menu=[S("Nelder-Mead"), S("COBYLA"), S("Powell"), S("L-BFGS-B"), S("SLSQP"), S("trust-constr"), S("auto"),
                               ("max", "Q"), ("read",)], depth=None),
    # method-specific branches of the solver (derivative-free methods take their own paths) followed by bound edits made
    # on the Variable objects only, and a solve with another method
    "method-branches": dict(roots=[(("min", "Q"),)],
                            menu=[S("COBYLA"), S("Nelder-Mead"), S("SLSQP"), ("xub", 4.0), ("xub", 2.0), ("ylb", 1.0), ("read",)], depth=None),
    # edits that are REJECTED half-way (a list with an invalid element) on cold and warm problems
    "rejected-edit": dict(roots=[(("min", "Q"),), (("max", "L2"),)],
                          menu=[("stbad", "c1"), ("stbad", "c4"), ("st", "c3"), S("auto"), S("SLSQP"), S("highs"), ("read",)], depth=None),
    "variable-set": dict(roots=[(("st", "c1"), ("st", "c3"))],
                         menu=[("max", "La"), ("max", "Lz"), ("min", "Laz"), ("min", "L1"), ("min", "Qz"), S("auto"), S("SLSQP"),
                               ("read",)], depth=None),
    "sense-hessian": dict(roots=[()], menu=[("min", "N"), ("max", "N"), ("min", "Q"), ("max", "Q"), ("st", "c1"), S("trust-constr"),
                                            S("SLSQP"), S("auto"), ("read",)], depth=None, max_cons=1),
}
FULL_MENU = ([("min", k) for k in OBJ_KEYS] + [("max", k) for k in OBJ_KEYS] + [("max", "La"), ("max", "Lz")]
             + [("st", k) for k in CON_KEYS]
             + [("stl", ("c1", "c2")), ("stl", ("c3", "c4")), ("xub", 2.0), ("xub", 4.0), ("ylb", 1.0), ("ylb", 0.0)]
             + [S(m) for m in METHODS] + [("read",)])


def shards(tier, seed):
    out = [("closed", name, ri) for name in DRIVERS for ri in range(len(DRIVERS[name]["roots"]))]
    out += [("combined", i) for i in range(len(FULL_MENU))]
    return out


def explore(item, tier, seed):
    rep = Report()
    if item[0] == "closed":
        cfg = DRIVERS[item[1]]
        drv = Driver(cfg["menu"], cfg.get("max_cons", 2 if tier == "quick" else 3), cfg.get("init"))
        ns, nt, fix = bfs(drv, [cfg["roots"][item[2]]], max_depth=14 if tier == "quick" else 20, rep=rep)
        rep.outcomes["driver:%s/%d:%s" % (item[1], item[2], "fixpoint" if fix else "depth-bounded")] += 1
        rep.extra["fixpoint:%s/%d" % (item[1], item[2])] = bool(fix)
        if not fix:
            rep.caps.append(f"driver {item[1]}: depth bound reached before fixpoint")
        rep.sample({"driver": item[1], "root": cfg["roots"][item[2]], "states": ns, "transitions": nt, "fixpoint": fix})
    else:
        first = FULL_MENU[item[1]]
        drv = Driver(FULL_MENU, 2 if tier == "quick" else 3)
        depth = 3 if tier == "quick" else 5
        ns, nt, fix = bfs(drv, [(first,)], max_depth=depth, rep=rep, max_states=None)
        rep.extra["combined_depth"] = depth
        rep.outcomes["combined:first-op:%s" % (first,)] += 1
        if item[1] % 6 == 0:
            rep.sample({"driver": "combined", "first_op": first, "depth": depth, "states": ns, "transitions": nt})
    rep.evaluations = rep.transitions
    # every distinct canonical state is a distinct non-trivial case
    for i in range(rep.states):
        rep.nt((item, i))
    return rep


def _fails_same(kind, drv):
    def f(h):
        _, _, fs = drv.run(h)
        return any(k == kind for k, _ in fs)
    return f


def culprit(v):
    hist = detuple(v["case"]["history"])
    hist = tuple(tuple(op) if isinstance(op, (list, tuple)) else op for op in hist)
    drv = Driver(FULL_MENU, 3)
    kind = v["kind"]
    hmin = minimise_history(hist, _fails_same(kind, drv), always_keep=1)
    return {"kind": kind, "history": hmin}


def replay(art):
    hist = detuple(art["culprit"]["history"])
    drv = Driver(FULL_MENU, 3)
    _, _, fs = drv.run(tuple(hist))
    return [{"kind": k, "detail": d} for k, d in fs if k == art["culprit"]["kind"]]
