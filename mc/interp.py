"""Reference interpreter: recipe -> value in one of the algebras of `alg.py`.

A recipe is a nested tuple naming a sequence of public-API calls (grammar: DESIGN.md
appendix A).  This module gives every recipe its *mathematical* denotation by expanding
vector and matrix nodes into scalar arithmetic over the chosen algebra.  It never asks
optyx anything: element names follow the documented naming scheme (`x[i]`, `A[i,j]`,
symmetric `A[min,max]`).
"""

from __future__ import annotations

from mc.alg import FloatAlg, JetAlg, PolyAlg, NonPoly  # noqa: F401

SCALAR_HEADS = {
    "var", "c", "C", "k", "par", "bin", "un", "idx", "midx", "sum", "vsum", "psum", "dot",
    "mm", "norm", "qform", "QF", "LC", "msum", "trace", "frob", "ka",
}
VECTOR_HEADS = {
    "vvar", "slice", "row", "col", "diag", "vbin", "rvbin", "vneg", "vpow", "vun", "mv",
    "matmulf", "Mv", "arr", "lst", "cvec", "pvec",
}
MATRIX_HEADS = {"mvar", "T", "sub", "mbin", "rmbin", "mneg", "diagm", "arr2", "lst2"}


class ShapeError(Exception):
    """The recipe combines operands of incompatible shapes: the build must be rejected."""


def kind_of(r):
    h = r[0]
    if h == "fresh":
        return kind_of(r[2])
    if h in SCALAR_HEADS:
        return "s"
    if h in VECTOR_HEADS:
        return "v"
    if h in MATRIX_HEADS:
        return "m"
    raise KeyError(h)


def vec_names(name, n):
    return [f"{name}[{i}]" for i in range(n)]


def mat_names(name, r, c, sym):
    if sym:
        return [[f"{name}[{min(i, j)},{max(i, j)}]" for j in range(c)] for i in range(r)]
    return [[f"{name}[{i},{j}]" for j in range(c)] for i in range(r)]


def _sl(a, b, s):
    return slice(a, b, s)


class Interp:
    def __init__(self, alg):
        self.A = alg

    # ---- entry
    def ev(self, r):
        return getattr(self, "_" + r[0])(r)

    def _fresh(self, r):
        return self.ev(r[2])

    # ---- scalars
    def _var(self, r):
        return self.A.var(r[1])

    def _c(self, r):
        return self.A.const(r[1])

    _C = _c

    def _k(self, r):
        return self.A.const(r[1])

    def _par(self, r):
        return self.A.param(r[1])

    def _binop(self, op, a, b, rb=None):
        A = self.A
        if op == "+":
            return A.add(a, b)
        if op == "-":
            return A.sub(a, b)
        if op == "*":
            return A.mul(a, b)
        if op == "/":
            return A.div(a, b)
        if op == "**":
            if rb is not None and rb[0] in ("c", "C", "k"):
                return A.powc(a, rb[1])
            return A.pow(a, b)
        raise KeyError(op)

    def _bin(self, r):
        _, op, ra, rb = r
        return self._binop(op, self.ev(ra), self.ev(rb), rb)

    def _un(self, r):
        return self.A.un(r[1], self.ev(r[2]))

    def _idx(self, r):
        v = self.ev(r[1])
        try:
            return v[r[2]]
        except IndexError:
            raise ShapeError("index")

    def _midx(self, r):
        m = self.ev(r[1])
        try:
            return m[r[2]][r[3]]
        except IndexError:
            raise ShapeError("index")

    def _fold(self, xs):
        A = self.A
        acc = xs[0]
        for x in xs[1:]:
            acc = A.add(acc, x)
        return acc

    def _sum(self, r):
        return self._fold(self.ev(r[1]))

    _vsum = _sum

    def _psum(self, r):
        return self._fold([self.A.const(0)] + list(self.ev(r[1])))

    def _dotl(self, u, w):
        if len(u) != len(w):
            raise ShapeError("dot")
        A = self.A
        return self._fold([A.mul(a, b) for a, b in zip(u, w)])

    def _dot(self, r):
        return self._dotl(self.ev(r[1]), self.ev(r[2]))

    _mm = _dot

    def _norm(self, r):
        A = self.A
        u = self.ev(r[1])
        if r[2] == 2:
            return A.un("sqrt", self._fold([A.mul(a, a) for a in u]))
        if r[2] == 1:
            return self._fold([A.un("abs", a) for a in u])
        raise ShapeError("norm order")

    def _qform(self, r):
        u = self.ev(r[1])
        Q = self.ev(r[2])
        n = len(u)
        if len(Q) != n or any(len(row) != n for row in Q):
            raise ShapeError("qform")
        A = self.A
        terms = []
        for i in range(n):
            for j in range(n):
                terms.append(A.mul(A.mul(u[i], Q[i][j]), u[j]))
        return self._fold(terms)

    _QF = _qform

    def _LC(self, r):
        return self._dotl(self.ev(r[1]), self.ev(r[2]))

    def _msum(self, r):
        return self._fold([x for row in self.ev(r[1]) for x in row])

    def _trace(self, r):
        m = self.ev(r[1])
        if len(m) != len(m[0]):
            raise ShapeError("trace")
        return self._fold([m[i][i] for i in range(len(m))])

    def _frob(self, r):
        A = self.A
        return A.un("sqrt", self._fold([A.mul(x, x) for row in self.ev(r[1]) for x in row]))

    # ---- vectors
    def _vvar(self, r):
        return [self.A.var(n) for n in vec_names(r[1], r[2])]

    def _arr(self, r):
        return [self.A.const(c) for c in r[1]]

    _lst = _arr
    _cvec = _arr

    def _pvec(self, r):
        return [self.A.param(n) for n in r[1]]

    def _slice(self, r):
        out = self.ev(r[1])[_sl(r[2], r[3], r[4])]
        if not out:
            raise ShapeError("empty slice")
        return out

    def _row(self, r):
        m = self.ev(r[1])
        try:
            out = m[r[2]][_sl(r[3], r[4], r[5])]
        except IndexError:
            raise ShapeError("row")
        if not out:
            raise ShapeError("empty")
        return out

    def _col(self, r):
        m = self.ev(r[1])
        try:
            out = [row[r[5]] for row in m[_sl(r[2], r[3], r[4])]]
        except IndexError:
            raise ShapeError("col")
        if not out:
            raise ShapeError("empty")
        return out

    def _diag(self, r):
        m = self.ev(r[1])
        if len(m) != len(m[0]):
            raise ShapeError("diag")
        return [m[i][i] for i in range(len(m))]

    def _operand(self, ro, n):
        """Right/left operand of an elementwise vector op: vector, data or broadcast scalar."""
        k = kind_of(ro)
        if k == "v":
            w = self.ev(ro)
            if len(w) != n:
                raise ShapeError("elementwise")
            return w, None
        if k == "s":
            x = self.ev(ro)
            return [x] * n, ro
        raise ShapeError("matrix operand in vector op")

    def _vbin(self, r):
        _, op, ru, rw = r
        u = self.ev(ru)
        w, lit = self._operand(rw, len(u))
        return [self._binop(op, a, b, lit) for a, b in zip(u, w)]

    def _rvbin(self, r):
        _, op, rk, ru = r
        u = self.ev(ru)
        k, _ = self._operand(rk, len(u))
        return [self._binop(op, a, b, None) for a, b in zip(k, u)]

    def _vneg(self, r):
        return [self.A.neg(a) for a in self.ev(r[1])]

    def _vpow(self, r):
        return [self.A.powc(a, r[2]) for a in self.ev(r[1])]

    def _vun(self, r):
        return [self.A.un(r[1], a) for a in self.ev(r[2])]

    def _mv(self, r):
        m = self.ev(r[1])
        u = self.ev(r[2])
        if any(len(row) != len(u) for row in m):
            raise ShapeError("matvec")
        return [self._dotl(row, u) for row in m]

    _matmulf = _mv
    _Mv = _mv

    # ---- matrices
    def _mvar(self, r):
        return [[self.A.var(n) for n in row] for row in mat_names(r[1], r[2], r[3], r[4])]

    def _arr2(self, r):
        rows = [[self.A.const(c) for c in row] for row in r[1]]
        return rows

    _lst2 = _arr2

    def _T(self, r):
        m = self.ev(r[1])
        return [[m[i][j] for i in range(len(m))] for j in range(len(m[0]))]

    def _sub(self, r):
        m = self.ev(r[1])
        rs = r[6] if len(r) > 6 else None
        cs = r[7] if len(r) > 7 else None
        rows = m[_sl(r[2], r[3], rs)]
        out = [row[_sl(r[4], r[5], cs)] for row in rows]
        if not out or not out[0]:
            raise ShapeError("empty")
        return out

    def _moperand(self, ro, nr, nc):
        k = kind_of(ro)
        if k == "m":
            w = self.ev(ro)
            if len(w) != nr or any(len(row) != nc for row in w):
                raise ShapeError("matrix elementwise")
            return w, None
        if k == "s":
            x = self.ev(ro)
            return [[x] * nc for _ in range(nr)], ro
        raise ShapeError("vector operand in matrix op")

    def _mbin(self, r):
        _, op, rm, rn = r
        m = self.ev(rm)
        w, lit = self._moperand(rn, len(m), len(m[0]))
        return [[self._binop(op, a, b, lit) for a, b in zip(ra, rb)] for ra, rb in zip(m, w)]

    def _rmbin(self, r):
        _, op, rk, rm = r
        m = self.ev(rm)
        k, _ = self._moperand(rk, len(m), len(m[0]))
        return [[self._binop(op, a, b, None) for a, b in zip(ra, rb)] for ra, rb in zip(k, m)]

    def _mneg(self, r):
        return [[self.A.neg(a) for a in row] for row in self.ev(r[1])]

    def _diagm(self, r):
        u = self.ev(r[1])
        n = len(u)
        z = self.A.const(0)
        return [[u[i] if i == j else z for j in range(n)] for i in range(n)]


# --------------------------------------------------------------------------- syntactic facts


def walk(r):
    """All sub-recipes (pre-order), including r."""
    yield r
    for x in r[1:]:
        if isinstance(x, tuple) and x and isinstance(x[0], str) and (
            x[0] in SCALAR_HEADS or x[0] in VECTOR_HEADS or x[0] in MATRIX_HEADS or x[0] == "fresh"
        ):
            yield from walk(x)


def var_names(r):
    """Names of the scalar decision variables syntactically occurring in the recipe
    (views mention only the elements they select)."""
    return sorted(_Names().collect(r))


class _NameAlg:
    """Algebra whose values are frozensets of variable names."""

    ok = True

    def const(self, c):
        return frozenset()

    def var(self, n):
        return frozenset([n])

    def param(self, n):
        return frozenset()

    def add(self, a, b):
        return a | b

    sub = mul = div = pow = add

    def neg(self, a):
        return a

    def powc(self, a, k):
        return a

    def un(self, f, a):
        return a


class _Names:
    def collect(self, r):
        v = Interp(_NameAlg()).ev(r)
        k = kind_of(r)
        if k == "s":
            return set(v)
        if k == "v":
            return set().union(*v)
        return set().union(*[x for row in v for x in row])


def param_names(r):
    return sorted({s[1] for s in walk(r) if s[0] == "par"} | {n for s in walk(r) if s[0] == "pvec" for n in s[1]})


def natural_key(name):
    import re

    return tuple(int(p) if p.isdigit() else p for p in re.split(r"(\d+)", name))


class _StrAlg:
    """Algebra whose variable values are their own names (for pure views: handle -> element names)."""

    ok = True

    def var(self, n):
        return n

    def const(self, c):
        return 0.0

    param = const


def element_names(r):
    """Names of the variables a pure view recipe (vvar / mvar / slices / rows / T / diag ...) selects,
    as a nested list with the NumPy shape of the view."""
    return Interp(_StrAlg()).ev(r)
