#!/bin/sh
# Pinned repository test-suite (command from /root/.vp/BASELINE.json); $1 = repo root (default /repo)
root="${1:-/repo}"
cd "$root" && PYTHONPATH="$root/src" /venv/bin/python -m pytest -ra -q -p no:cacheprovider --timeout=900 --continue-on-collection-errors -x -q 2>&1 | tail -${2:-6}
