"""A family of small linear programs (problem recipes) shared by C06, C07, C08."""

from __future__ import annotations

import itertools

import numpy as np

from checks import c05
from mc import problems as PR

XA, XB = c05.XA, c05.XB
V = c05.V
c = c05.c
add, mul = c05.add, c05.mul

OBJ2 = [(1, 2), (-1, 1), (0, 0), (2, -1), (0, 1), (-1, -1)]
OBJ3 = [(1, 2, 3), (-1, 1, 0), (0, 0, 0), (2, -1, 1), (1, 1, 1), (-1, -2, -1)]
ROWS2 = [(1, 1), (1, -1), (1, 0), (0, 1), (2, 1), (-1, -1), (1, 2), (0, 0)]
ROWS3 = [(1, 1, 1), (1, -1, 0), (1, 0, 0), (0, 0, 1), (2, 1, -1), (-1, -1, -1), (1, 2, 3), (0, 0, 0)]
RHS = (-1, 0, 2)
SENSES = ("<=", ">=", "==")
BOUNDS = [(("lb", 0), ("ub", 3)), (("lb", 0),), (), (("lb", 2), ("ub", 1)), (("lb", -1), ("ub", 1)), (("ub", 2),)]
METHODS = ("auto", "linprog", "highs", "highs-ds", "highs-ipm")


def _spell(n, a, k, which):
    sp = c05.spell_scalar(a, k) if n == 2 else c05.spell_vector(a, k)
    return sp[which % len(sp)]


def family(tier):
    """Yields (index, label, problem recipe, method).  Full product objective x constraint set x bounds;
    spelling and method are assigned by fixed rotations (every spelling and every method occurs with
    every objective); thorough adds the full product with the methods."""
    idx = 0
    for n, OBJ, ROWS in ((2, OBJ2, ROWS2), (3, OBJ3, ROWS3)):
        consets = [()]
        singles = [(row, r, s) for row in ROWS for r in RHS for s in SENSES]
        consets += [(x,) for x in singles]
        pick = singles[:: (3 if tier == "thorough" else 7)]
        consets += [(p, q) for p, q in itertools.product(pick, repeat=2) if p != q]
        for a in OBJ:
            for k in (0, 5):
                for sense in ("min", "max"):
                    for cs in consets:
                        for bi, bm in enumerate(BOUNDS if tier == "thorough" else BOUNDS[:4]):
                            lab_o, obj = _spell(n, a, k, idx)
                            cons = []
                            labs = [lab_o]
                            for j, (row, r, s) in enumerate(cs):
                                lab_c, e = _spell(n, row, 0, idx // 3 + j * 5 + 1)
                                labs.append(lab_c)
                                if (idx + j) % 3 == 0:
                                    cons.append(("cmp", s, e, c(r)))
                                elif (idx + j) % 3 == 1:
                                    flip = {"<=": ">=", ">=": "<=", "==": "=="}[s]
                                    cons.append(("cmp", flip, c(r), e))
                                else:
                                    cons.append(("cmp", s, add(e, c(1)), c(r + 1)))
                            attrs = (("x9", bm), ("x10", bm)) if n == 2 else (("v", bm),)
                            pr = PR.prob(sense, obj, cons, attrs)
                            if tier == "thorough":
                                for m in METHODS:
                                    yield idx, tuple(labs), pr, m
                            else:
                                yield idx, tuple(labs), pr, METHODS[idx % len(METHODS)]
                            idx += 1


def view_family():
    """LPs written ONLY with whole-view reductions (sum, c@view) over views of one vector whose generated names and
    sizes coincide although they select different elements (u[::2] / u[::-2], u[0:4:2] / u[0:4:3], u[:] / u[::-1])."""
    U = ("vvar", "u", 4)
    ev, od = ("slice", U, None, None, 2), ("slice", U, None, None, -2)          # {0,2} / {3,1}
    a2, a3 = ("slice", U, 0, 4, 2), ("slice", U, 0, 4, 3)                       # {0,2} / {0,3}
    full, rev = ("slice", U, None, None, None), ("slice", U, None, None, -1)
    w2, w2b, w4 = ("arr", (1.0, 2.0)), ("arr", (3.0, -1.0)), ("arr", (1.0, -2.0, 3.0, 0.5))
    models = [
        ("sum-even/sum-odd", ("sum", ev), (("cmp", "<=", ("sum", od), c(3)), ("cmp", ">=", ("sum", ev), c(1)))),
        ("sum-odd/sum-even", ("sum", od), (("cmp", ">=", ("sum", ev), c(1)), ("cmp", ">=", ("sum", od), c(0.5)))),
        ("w@a2/w@a3", ("mm", w2, a2), (("cmp", ">=", ("mm", w2b, a3), c(1)), ("cmp", "<=", ("mm", w2, a3), c(4)))),
        ("w@a3/w@a2", ("mm", w2b, a3), (("cmp", "<=", ("mm", w2, a2), c(2)),)),
        ("w@full/w@rev", ("mm", w4, full), (("cmp", ">=", ("mm", w4, rev), c(1)), ("cmp", "<=", ("sum", full), c(5)))),
        ("sum-even/w@odd-eq", ("sum", ev), (("cmp", "==", ("mm", w2, od), c(2)),)),
        # the same generated NAME but different sizes: u[0:4:2] (2 elements) and u[0:4] (4 elements) are both "u[0:4]"
        ("w@stepped/sum-range", ("mm", w2, a2), (("cmp", "<=", ("sum", ("slice", U, 0, 4, None)), c(5)),)),
        ("sum-range-2sum-stepped", add(("bin", "-", ("sum", ("slice", U, 0, 4, None)), mul(c(2), ("sum", a2))), c(1)),
         (("cmp", ">=", ("sum", a2), c(0.5)),)),
        ("sum-stepped/w@range", ("sum", a3), (("cmp", ">=", ("mm", w4, ("slice", U, 0, 4, None)), c(1)),)),
    ]
    idx = 0
    for lab, obj, cons in models:
        for sense in ("min", "max"):
            for bm in ((("lb", 0), ("ub", 3)), (("lb", -1), ("ub", 2))):
                yield 10_000_000 + idx, ("views", lab, sense), PR.prob(sense, obj, cons, (("u", bm),)), METHODS[idx % len(METHODS)]
                idx += 1


def scaled_family():
    """LPs with constraint rows whose coefficients are large (|a| up to 5e4, right-hand sides up to 1e5) next to O(1)
    objectives, in every sense and with dominant entries of both signs."""
    rows = [(50000, 1), (-50000, 1), (1, -50000), (20000, 30000), (-30000, -20000), (50000, 0)]
    idx = 0
    bm = (("lb", 0), ("ub", 10))
    for row in rows:
        for r in (100000, -100000, 0, 250000):
            for s in SENSES:
                for a, sense in (((1, 1), "min"), ((1, 1), "max"), ((-1, 2), "min"), ((2, -1), "max")):
                    lab, e = _spell(2, row, 0, idx)
                    cons = [("cmp", s, e, c(r))]
                    if idx % 2:
                        cons.append(("cmp", "<=", add(XA, XB), c(15)))
                    obj = add(mul(c(a[0]), XA), mul(c(a[1]), XB))
                    yield 20_000_000 + idx, ("scaled", lab, row, r, s, sense), PR.prob(sense, obj, cons, (("x9", bm), ("x10", bm))), METHODS[idx % len(METHODS)]
                    idx += 1


def reference_lp(pr):
    """Matrix form assembled independently from the exact polynomials of the recipes."""
    names = PR.problem_var_names(pr)
    n = len(names)
    coef, const = PR.affine_of(pr[2], names)
    A_ub, b_ub, A_eq, b_eq = [], [], [], []
    for sense, diff in PR.flat_constraints(pr):
        row, k = PR.affine_of(diff, names)
        row = np.array(row)
        if sense == "<=":
            A_ub.append(row); b_ub.append(-k)
        elif sense == ">=":
            A_ub.append(-row); b_ub.append(k)
        else:
            A_eq.append(row); b_eq.append(-k)
    bounds = [PR.declared_bounds(pr, nm)[:2] for nm in names]
    sign = -1.0 if pr[1] == "max" else 1.0
    return {
        "names": names, "c": sign * np.array(coef), "const": const, "sign": sign,
        "A_ub": np.array(A_ub) if A_ub else None, "b_ub": np.array(b_ub) if b_ub else None,
        "A_eq": np.array(A_eq) if A_eq else None, "b_eq": np.array(b_eq) if b_eq else None,
        "bounds": bounds,
    }


def solve_reference(ref, method):
    from scipy.optimize import linprog

    m = "highs" if method in ("auto", "linprog") else method
    if len(ref["names"]) == 0:
        return None
    res = linprog(c=ref["c"], A_ub=ref["A_ub"], b_ub=ref["b_ub"], A_eq=ref["A_eq"], b_eq=ref["b_eq"],
                  bounds=ref["bounds"], method=m)
    verdict = {0: "optimal", 2: "infeasible", 3: "unbounded"}.get(res.status, "indeterminate")
    obj = None
    if res.status == 0:
        obj = ref["sign"] * float(res.fun) + ref["const"]
    return verdict, obj, res
