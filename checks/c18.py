"""C18  integrality is never relaxed silently (strict raises before any back-end call; otherwise a complete warning)."""

from __future__ import annotations

import warnings

from checks.common import Fails, Report, detuple, np, natural_key
from mc.build import Builder
from mc.interp import element_names
from mc.seams import Seam

ID = "C18"
LEVEL = "model_checking"
RULE = (
    "states = (declaration route, domain, model kind, method, strict) tuples: routes {scalar Variable, VectorVariable, "
    "from_numpy, MatrixVariable, symmetric matrix, slice, stepped and reversed slices, row, column, diagonal, "
    "transpose, sub-matrix, diag_matrix, mixed continuous+integer model, integer variable only in a constraint, model made only of whole-vector aggregates of one vector object, "
    "containers with >=4 non-continuous elements} x {integer with integral / non-integral / no bounds, binary with user bounds contradicting [0,1]} x {linear "
    "model, nonlinear model} x every applicable method {auto, linprog, highs, highs-ds, highs-ipm | auto, SLSQP, "
    "trust-constr, L-BFGS-B, TNC, BFGS, CG, Newton-CG, Nelder-Mead, Powell, COBYLA} x {strict, non-strict}: the full "
    "product; plus histories of 2 (3 thorough) solves on ONE problem object (warm caches) over method pairs and every "
    "strict / non-strict combination, also with a domain edit between two solves (one variable relaxed, the continuous helper made integer).  transitions = solves on the real code with the back-end seam counting calls; evaluations: strict "
    "raises IntegerVariableError whose variable_names are exactly the non-continuous variables with 0 back-end "
    "calls; non-strict emits >=1 UserWarning naming exactly those variables and returns the same status / objective "
    "/ values as the same model declared continuous; every element reachable through every view of a binary "
    "container has lb 0, ub 1, domain 'binary'.  Non-trivial = case with >=1 non-continuous variable; distinct by tuple."
)
ASSUMPTIONS = ["solution comparison tolerance 1e-9 (same code path, same floats, only the domain attribute differs)"]

LP_METHODS = ("auto", "linprog", "highs", "highs-ds", "highs-ipm")
NLP_METHODS = ("auto", "SLSQP", "trust-constr", "L-BFGS-B", "TNC", "BFGS", "CG", "Newton-CG", "Nelder-Mead", "Powell", "COBYLA")

V5 = ("vvar", "q", 5)
M23 = ("mvar", "K", 2, 3, False)
S3 = ("mvar", "Y", 3, 3, True)
ROUTES = [
    ("scalar", ("var", "i1"), "i1"),
    ("vector", V5, "q"),
    ("slice", ("slice", V5, 1, 4, None), "q"),
    ("stepped", ("slice", V5, None, None, 2), "q"),
    ("reversed", ("slice", V5, None, None, -1), "q"),
    ("view-of-view", ("slice", ("slice", V5, 1, None, None), None, None, -2), "q"),
    ("matrix", M23, "K"),
    ("transpose", ("T", M23), "K"),
    ("row", ("row", M23, 1, None, None, None), "K"),
    ("column", ("col", M23, None, None, None, 2), "K"),
    ("submatrix", ("sub", M23, 0, 2, 1, 3), "K"),
    ("symmetric", S3, "Y"),
    ("diagonal", ("diag", S3, "m"), "Y"),
    ("sym-row", ("row", S3, 2, None, None, None), "Y"),
    ("diag_matrix", ("diagm", ("vvar", "dq", 2)), "dq"),
    ("from_numpy", ("from_numpy", "fn", 4), "fn"),
]
DOMAINS = [("integer", {"lb": -2, "ub": 6}), ("binary", {"lb": -5, "ub": 7}), ("binary", {}), ("integer", {}),
           ("integer", {"lb": -1.5, "ub": 5.25})]      # non-integral bounds, active at the optimum of the linear model


def flat_vars(obj):
    from optyx.core.expressions import Variable
    from optyx.core.vectors import VectorVariable

    if isinstance(obj, Variable):
        return [obj]
    if isinstance(obj, VectorVariable):
        return list(obj._variables)
    out, seen = [], set()
    for row in obj._variables:
        for v in row:
            if id(v) not in seen:
                seen.add(id(v))
                out.append(v)
    return out


def build_route(route, container, domain, attrs, continuous=False):
    import optyx

    dom = "continuous" if continuous else domain
    a = dict(attrs)
    if continuous and domain == "binary":
        a = {"lb": 0.0, "ub": 1.0}
    if route[0] == "from_numpy":
        obj = optyx.VectorVariable.from_numpy(route[1], np.zeros(route[2]), domain=dom, **a)
        return obj, Builder()
    b = Builder(var_attrs={container: dict(a, domain=dom)})
    return b.build(route), b


def make_problem(kind, model, route, container, domain, attrs, continuous=False):
    """linear / nonlinear model over the elements of the declared object (+ one continuous variable)."""
    import optyx

    obj, b = build_route(route, container, domain, attrs, continuous)
    vs = flat_vars(obj)
    if kind == "whole-vector-only":
        # every expression is a whole-vector aggregate of ONE VectorVariable object (no other variable in the model)
        n = len(vs)
        cvec = np.array([1.0 + 0.5 * i for i in range(n)])
        P = optyx.Problem()
        if model == "linear":
            P.minimize(cvec @ obj)
            P.subject_to(obj.sum() >= 1.5 - 3.0 * n)
            P.subject_to((np.ones(n) @ obj) <= 2.5 * n)
        else:
            P.minimize(obj.dot(obj) - cvec @ obj)
            P.subject_to(obj.sum() >= 0.7 - 3.0 * n)
        return P, vs
    zc = optyx.Variable("zc", lb=0, ub=4)
    P = optyx.Problem()
    coef = [1.0 + 0.5 * i for i in range(len(vs))]
    if kind == "only-in-constraint":
        target = zc
    else:
        target = None
    if model == "linear":
        e = zc * 0.5
        if target is None:
            for c_, v in zip(coef, vs):
                e = e + c_ * v
        P.minimize(e)
        s = vs[0]
        for v in vs[1:]:
            s = s + v
        P.subject_to(s + zc >= 1.5)
        P.subject_to(s <= 2.5 * len(vs))
        for v in vs:
            if v.lb is None:
                P.subject_to(v >= -3)
    else:
        e = (zc - 1.25) ** 2
        if target is None:
            for i, v in enumerate(vs):
                # ... and a power of the variable OBJECT itself (b ** 2 is not b on the relaxed interval)
                e = e + (v - 0.3 * (i + 1)) ** 2 + 0.25 * v ** 2
        P.minimize(e)
        s = vs[0]
        for v in vs[1:]:
            s = s + v
        P.subject_to(s + zc >= 0.7)
    if kind == "no-continuous":
        pass
    return P, vs


WHOLE_VECTOR_ROUTES = ("vector", "slice", "stepped", "reversed", "view-of-view", "row", "column", "diagonal", "sym-row", "from_numpy")


def all_cases(tier):
    idx = 0
    for (rl, route, container) in ROUTES:
        for (domain, attrs) in DOMAINS:
            for kind in ("mixed", "only-in-constraint") + (("whole-vector-only",) if rl in WHOLE_VECTOR_ROUTES else ()):
                for model, methods in (("linear", LP_METHODS + ("SLSQP", "trust-constr")), ("nonlinear", NLP_METHODS)):
                    for m in methods:
                        if model == "linear" and kind == "only-in-constraint" and m not in ("auto", "linprog", "SLSQP"):
                            continue
                        for strict in (True, False):
                            yield idx, (rl, domain, tuple(sorted(attrs.items())), kind, model, m, strict), route, container, domain, attrs
                            idx += 1


NSH = 32

SEQ_ROUTES = [r for r in ROUTES if r[0] in ("scalar", "vector", "matrix", "diag_matrix", "reversed")]
SEQ_METHODS = {
    "linear": [("auto", "auto"), ("auto", "highs-ds"), ("highs", "auto"), ("linprog", "SLSQP"), ("SLSQP", "auto")],
    "nonlinear": [("auto", "auto"), ("SLSQP", "trust-constr"), ("trust-constr", "SLSQP"), ("L-BFGS-B", "SLSQP")],
}
SEQ_STRICT = [(False, False), (False, True), (True, False), (True, True)]


def sequence_cases(tier):
    """Histories of solves on ONE problem object: (method, strict) steps (caches are warm after the first)."""
    idx = 0
    for (rl, route, container) in SEQ_ROUTES:
        for (domain, attrs) in DOMAINS[:2]:
            for model in ("linear", "nonlinear"):
                for ms in SEQ_METHODS[model]:
                    for st in SEQ_STRICT:
                        steps = tuple(zip(ms, st))
                        if tier == "thorough":
                            steps = steps + ((ms[0], True),)
                        yield idx, (rl, domain, tuple(sorted(attrs.items())), model, steps), route, container, domain, attrs
                        idx += 1


def check_sequence(label, route, container, domain, attrs, rep=None, want=None, edit=None):
    from optyx.core.errors import IntegerVariableError

    fails = Fails(want)
    rl, _, _, model, steps = label
    P, vs = make_problem("mixed", model, route, container, domain, attrs)
    D = sorted({v.name for v in P.variables if v.name != "zc"}, key=natural_key)
    zc = next((v for v in P.variables if v.name == "zc"), None)
    if rep:
        rep.states += 1
        rep.nt(label)
    for k, (method, strict) in enumerate(steps):
        kw = {} if method == "auto" else {"method": method}
        if k == 1 and edit == "relax-one" and vs:
            vs[-1].domain = "continuous"          # the user relaxes one variable between two solves ...
            D = sorted({v.name for v in P.variables if v.domain != "continuous"}, key=natural_key)
        if k == 1 and edit == "discretise-zc" and zc is not None:
            zc.domain = "integer"                 # ... or makes a continuous one integer
            D = sorted({v.name for v in P.variables if v.domain != "continuous"}, key=natural_key)
        if not D:
            break
        if rep:
            rep.transitions += 1
            rep.evaluations += 2
        if strict:
            try:
                with Seam() as s_:
                    P.solve(strict=True, **kw)
                fails.add("strict-did-not-raise:on-repeated-solve" if k else "strict-did-not-raise", step=k, method=method, D=D)
            except IntegerVariableError as ex:
                names = sorted(getattr(ex, "variable_names", None) or [], key=natural_key)
                if names != D:
                    fails.add("strict-error-names", step=k, got=names, expected=D)
                if len(s_.calls) != 0:
                    fails.add("back-end-called-before-strict-error", step=k, calls=len(s_.calls))
            except Exception as ex:
                fails.add("strict-raised-other:" + type(ex).__name__, step=k, method=method, msg=str(ex)[:200])
        else:
            try:
                with warnings.catch_warnings(record=True) as rec:
                    warnings.simplefilter("always")
                    P.solve(**kw)
            except Exception as ex:
                fails.add("exception:solve:" + type(ex).__name__, step=k, method=method, msg=str(ex)[:200])
                continue
            texts = [str(w.message) for w in rec if issubclass(w.category, UserWarning) and "integer/binary" in str(w.message)]
            if not texts:
                fails.add("no-relaxation-warning:on-repeated-solve" if k else "no-relaxation-warning", step=k, method=method, D=D)
            else:
                for t in texts:
                    inside = t.split("[", 1)[1].rsplit("] have", 1)[0] if "[" in t and "] have" in t else t
                    if [n for n in D if n not in inside]:
                        fails.add("warning-names", step=k, method=method, text=t[:200], D=D)
                        break
    return fails


def shards(tier, seed):
    return [(i, NSH) for i in range(NSH)] + [("views", 0)] + [("seq", i, 8) for i in range(8)]


def check_case(label, route, container, domain, attrs, rep=None, want=None):
    from optyx.core.errors import IntegerVariableError

    fails = Fails(want)
    rl, _, _, kind, model, method, strict = label
    try:
        P, vs = make_problem(kind, model, route, container, domain, attrs)
    except Exception as ex:
        fails.add("exception:build:" + type(ex).__name__, msg=str(ex)[:200])
        return fails
    D = sorted({v.name for v in P.variables if v.name != "zc"}, key=natural_key)
    if rep:
        rep.states += 1
        rep.nt(label)
    kw = {} if method == "auto" else {"method": method}
    if strict:
        try:
            with Seam() as s, warnings.catch_warnings(record=True):
                warnings.simplefilter("always")
                P.solve(strict=True, **kw)
            fails.add("strict-did-not-raise", method=method, D=D)
        except IntegerVariableError as ex:
            names = sorted(getattr(ex, "variable_names", None) or [], key=natural_key)
            if names != D:
                fails.add("strict-error-names", got=names, expected=D, method=method)
            if len(s.calls) != 0:
                fails.add("back-end-called-before-strict-error", calls=len(s.calls), method=method)
        except Exception as ex:
            fails.add("strict-raised-other:" + type(ex).__name__, method=method, msg=str(ex)[:200])
        if rep:
            rep.transitions += 1
            rep.evaluations += 2
            rep.outcomes["strict"] += 1
        return fails
    # non-strict: warning + continuous relaxation
    try:
        with warnings.catch_warnings(record=True) as rec:
            warnings.simplefilter("always")
            sol = P.solve(**kw)
    except Exception as ex:
        fails.add("exception:solve:" + type(ex).__name__, method=method, msg=str(ex)[:200])
        return fails
    texts = [str(w.message) for w in rec if issubclass(w.category, UserWarning) and "integer/binary" in str(w.message)]
    if rep:
        rep.transitions += 2
        rep.evaluations += 3
        rep.outcomes["status:" + sol.status.value] += 1
    if not texts:
        fails.add("no-relaxation-warning", method=method, D=D, warnings=[str(w.message)[:80] for w in rec])
    else:
        for t in texts:
            inside = t.split("[", 1)[1].rsplit("] have", 1)[0] if "[" in t and "] have" in t else t
            missing = [n for n in D if n not in inside]
            if missing or "zc" in inside.replace("_diag_", ""):
                fails.add("warning-names", method=method, missing=missing, text=t[:200], D=D)
                break
    # the same solve when the environment answers badly: every back-end call raises / the method name is unknown to SciPy
    for env in ("back-end-raises", "unknown-method"):
        try:
            P3, _ = make_problem(kind, model, route, container, domain, attrs)

            def boom(call):
                raise RuntimeError("injected back-end fault")

            with warnings.catch_warnings(record=True) as rec3:
                warnings.simplefilter("always")
                try:
                    if env == "back-end-raises":
                        with Seam(script=[boom] * 6, passthrough=False):
                            P3.solve(**kw)
                    else:
                        P3.solve(method="no-such-method")
                except Exception:
                    pass
            if rep:
                rep.transitions += 1
                rep.evaluations += 1
            t3 = [str(w.message) for w in rec3 if issubclass(w.category, UserWarning) and "integer/binary" in str(w.message)]
            if not t3:
                fails.add("no-relaxation-warning:" + env, method=method, D=D)
            else:
                inside = t3[0].split("[", 1)[1].rsplit("] have", 1)[0] if "[" in t3[0] and "] have" in t3[0] else t3[0]
                if [n for n in D if n not in inside]:
                    fails.add("warning-names:" + env, method=method, text=t3[0][:200], D=D)
        except Exception as ex:
            fails.add("exception:bad-environment:" + type(ex).__name__, method=method, msg=str(ex)[:200])
    try:
        P2, _ = make_problem(kind, model, route, container, domain, attrs, continuous=True)
        for v in P2.variables:       # helper variables created by the API (diag_matrix zeros) are relaxed too
            if v.domain != "continuous":
                v.domain = "continuous"
        with warnings.catch_warnings(record=True) as rec2:
            warnings.simplefilter("always")
            ref = P2.solve(**kw)
        if any("integer/binary" in str(w.message) for w in rec2):
            fails.add("harness:continuous-twin-still-warns")
    except Exception as ex:
        fails.add("exception:solve-continuous-twin:" + type(ex).__name__, method=method, msg=str(ex)[:200])
        return fails
    if sol.status != ref.status:
        fails.add("relaxation-differs:status", method=method, got=sol.status.value, expected=ref.status.value)
    elif (sol.objective_value is None) != (ref.objective_value is None) or (
            sol.objective_value is not None and abs(sol.objective_value - ref.objective_value) > 1e-9 * (1 + abs(ref.objective_value))):
        fails.add("relaxation-differs:objective", method=method, got=sol.objective_value, expected=ref.objective_value)
    elif sorted(sol.values) != sorted(ref.values) or any(abs(sol.values[k] - ref.values[k]) > 1e-9 * (1 + abs(ref.values[k])) for k in ref.values):
        fails.add("relaxation-differs:values", method=method, got=sol.values, expected=ref.values)
    return fails


def check_binary_views(rep):
    """Every element reachable through every view of a binary container carries [0, 1] and domain 'binary'."""
    import optyx

    fails = Fails()
    for (rl, route, container) in ROUTES:
        for attrs in ({}, {"lb": -5, "ub": 7}, {"lb": 0.25}, {"ub": 0.5}):
            try:
                obj, b = build_route(route, container, "binary", attrs)
            except Exception as ex:
                fails.add("exception:build-binary:" + type(ex).__name__, route=rl, msg=str(ex)[:200])
                continue
            rep.states += 1
            for v in flat_vars(obj):
                rep.evaluations += 1
                if v.name.startswith("_diag_"):
                    if not (v.lb == 0 and v.ub == 0):
                        fails.add("diag_matrix-zero-not-fixed", route=rl, variable=v.name, lb=v.lb, ub=v.ub)
                    continue
                if not (v.lb == 0 and v.ub == 1 and v.domain == "binary"):
                    fails.add("binary-bounds", route=rl, variable=v.name, lb=v.lb, ub=v.ub, domain=v.domain, attrs=attrs)
    sc = optyx.Variable("b0", lb=-3, ub=9, domain="binary")
    if not (sc.lb == 0 and sc.ub == 1):
        fails.add("binary-bounds", route="scalar-ctor", lb=sc.lb, ub=sc.ub)
    return fails


def explore(item, tier, seed):
    rep = Report()
    if item[0] == "views":
        for k, d in check_binary_views(rep):
            rep.violation(k, {"label": ("views", d.get("route"))}, **d)
        return rep
    if item[0] == "seq":
        _, i, n = item
        for idx, label, route, container, domain, attrs in sequence_cases(tier):
            if idx % n != i:
                continue
            fs = check_sequence(label, route, container, domain, attrs, rep)
            seen = set()
            for k, d in fs:
                if k not in seen:
                    seen.add(k)
                    rep.violation(k, {"label": ("seq",) + label}, **d)
            if not fs:
                for edit in ("relax-one", "discretise-zc"):
                    for k, d in check_sequence(label, route, container, domain, attrs, rep, edit=edit):
                        if k + ":" + edit not in seen:
                            seen.add(k + ":" + edit)
                            rep.violation(k + ":after-domain-edit", {"label": ("seq",) + label, "edit": edit}, **d)
            if rep.states % 53 == 1:
                rep.sample({"solve-history on one problem object": label})
        return rep
    i, n = item
    for idx, label, route, container, domain, attrs in all_cases(tier):
        if idx % n != i:
            continue
        fs = check_case(label, route, container, domain, attrs, rep)
        seen = set()
        for k, d in fs:
            if k not in seen:
                seen.add(k)
                rep.violation(k, {"label": label}, **d)
        if rep.states % 201 == 1:
            rep.sample({"case": label})
    return rep


def culprit(v):
    lab = v["case"]["label"]
    if lab[0] == "views":
        return {"kind": v["kind"], "route": lab[1]}
    if lab[0] == "seq":
        return {"kind": v["kind"], "route": lab[1], "domain": lab[2], "model": lab[4], "steps": lab[5]}
    return {"kind": v["kind"], "route": lab[0], "domain": lab[1], "model": lab[4], "method": lab[5]}


def replay(art):
    lab = detuple(art["violation"]["case"]["label"])
    if lab[0] == "views":
        return [{"kind": k, "detail": d} for k, d in check_binary_views(Report())]
    if lab[0] == "seq":
        edit = art["violation"]["case"].get("edit")
        sfx = ":after-domain-edit" if edit else ""
        for tier_ in ("thorough", "quick"):
            for idx, label, route, container, domain, attrs in sequence_cases(tier_):
                if detuple(list(label)) == lab[1:] or label == lab[1:]:
                    return [{"kind": k + sfx, "detail": d} for k, d in check_sequence(label, route, container, domain, attrs, edit=edit)]
    for idx, label, route, container, domain, attrs in all_cases("quick"):
        if detuple(list(label)) == lab or label == lab:
            fs = check_case(label, route, container, domain, attrs, None, want=art["culprit"]["kind"])
            return [{"kind": k, "detail": d} for k, d in fs]
    return [{"kind": "unknown-case", "detail": {}}]
