"""Reference algebras: the semantic domains the recipe interpreter (`interp.py`) is run over.

* FloatAlg   -- plain IEEE arithmetic in float64 or longdouble (value oracle, C01/C10/C11 ...)
* JetAlg     -- truncated multivariate Taylor jets (value, gradient, Hessian): derivative oracle
* PolyAlg    -- exact multivariate polynomials over Fractions, or NonPoly: degree / LP oracle

None of this imports optyx.  Every algebra exposes the same small interface:
    const(c) var(name) add sub mul div neg powc(a, k) pow(a, b) un(f, a)
and records, on the instance, whether the evaluated point is inside the domain of the
formula (`ok`) and - for jets - whether every elementary operation was differentiable
at the point (`regular`).
"""

from __future__ import annotations

import math
from fractions import Fraction

import numpy as np

UNARY = (
    "neg", "abs", "sin", "cos", "tan", "exp", "log", "log2", "log10", "sqrt",
    "tanh", "sinh", "cosh", "asin", "acos", "atan", "asinh", "acosh", "atanh",
)

_NP = {
    "neg": np.negative, "abs": np.abs, "sin": np.sin, "cos": np.cos, "tan": np.tan,
    "exp": np.exp, "log": np.log, "log2": np.log2, "log10": np.log10, "sqrt": np.sqrt,
    "tanh": np.tanh, "sinh": np.sinh, "cosh": np.cosh, "asin": np.arcsin,
    "acos": np.arccos, "atan": np.arctan, "asinh": np.arcsinh, "acosh": np.arccosh,
    "atanh": np.arctanh,
}


class FloatAlg:
    """Plain floating point evaluation, vectorised over a batch of P points.

    `values[name]` is a scalar or an array of shape (P,); `ok` is the mask of points at
    which every intermediate value was finite (= the point is inside the domain)."""

    def __init__(self, values, params=None, dtype=np.float64, npoints=None):
        self.dt = dtype
        self.values = {k: np.asarray(v, dtype=dtype) for k, v in values.items()}
        self.params = params or {}
        if npoints is None:
            npoints = max([v.size for v in self.values.values()] + [1])
        self.P = npoints
        self.ok = np.ones(self.P, dtype=bool)

    def _chk(self, v):
        self.ok &= np.isfinite(v)
        return v

    def const(self, c):
        return self.dt(c)

    def var(self, name):
        if name not in self.values:      # element of a container that the formula never selects
            return self.dt(0)
        return self.values[name]

    def param(self, name):
        return self.dt(self.params[name])

    def add(self, a, b):
        with np.errstate(all="ignore"):
            return self._chk(a + b)

    def sub(self, a, b):
        with np.errstate(all="ignore"):
            return self._chk(a - b)

    def mul(self, a, b):
        with np.errstate(all="ignore"):
            return self._chk(a * b)

    def div(self, a, b):
        with np.errstate(all="ignore"):
            return self._chk(np.divide(a, b, dtype=self.dt))

    def neg(self, a):
        return -a

    def powc(self, a, k):
        return self.pow(a, self.dt(k))

    def pow(self, a, b):
        with np.errstate(all="ignore"):
            return self._chk(np.power(a, b, dtype=self.dt))

    def un(self, f, a):
        with np.errstate(all="ignore"):
            return self._chk(_NP[f](np.asarray(a, dtype=self.dt)))


# --------------------------------------------------------------------------- jets


def _d1d2(f, x, dt):
    """(f(x), f'(x), f''(x), regular-mask) for the 19 elementary functions, written out by hand."""
    one = dt(1)
    two = dt(2)
    T = np.ones(np.shape(x), dtype=bool)
    zero = np.zeros(np.shape(x), dtype=dt)
    with np.errstate(all="ignore"):
        if f == "neg":
            return -x, zero - one, zero, T
        if f == "abs":
            return np.abs(x), np.sign(x), zero, x != 0
        if f == "sin":
            return np.sin(x), np.cos(x), -np.sin(x), T
        if f == "cos":
            return np.cos(x), -np.sin(x), -np.cos(x), T
        if f == "tan":
            c = np.cos(x)
            t = np.tan(x)
            return t, one / (c * c), two * t / (c * c), c != 0
        if f == "exp":
            e = np.exp(x)
            return e, e, e, T
        if f == "log":
            return np.log(x), one / x, -one / (x * x), x > 0
        if f == "log2":
            l2 = np.log(two)
            return np.log2(x), one / (x * l2), -one / (x * x * l2), x > 0
        if f == "log10":
            l10 = np.log(dt(10))
            return np.log10(x), one / (x * l10), -one / (x * x * l10), x > 0
        if f == "sqrt":
            s = np.sqrt(x)
            return s, one / (two * s), -one / (dt(4) * s * s * s), x > 0
        if f == "tanh":
            t = np.tanh(x)
            c = np.cosh(x)
            return t, one / (c * c), -two * t / (c * c), T
        if f == "sinh":
            return np.sinh(x), np.cosh(x), np.sinh(x), T
        if f == "cosh":
            return np.cosh(x), np.sinh(x), np.cosh(x), T
        if f == "asin":
            w = one - x * x
            s = np.sqrt(w)
            return np.arcsin(x), one / s, x / (w * s), np.abs(x) < 1
        if f == "acos":
            w = one - x * x
            s = np.sqrt(w)
            return np.arccos(x), -one / s, -x / (w * s), np.abs(x) < 1
        if f == "atan":
            w = one + x * x
            return np.arctan(x), one / w, -two * x / (w * w), T
        if f == "asinh":
            w = one + x * x
            s = np.sqrt(w)
            return np.arcsinh(x), one / s, -x / (w * s), T
        if f == "acosh":
            w = x * x - one
            s = np.sqrt(w)
            return np.arccosh(x), one / s, -x / (w * s), x > 1
        if f == "atanh":
            w = one - x * x
            return np.arctanh(x), one / w, two * x / (w * w), np.abs(x) < 1
    raise KeyError(f)


class Jet:
    __slots__ = ("v", "g", "H", "d")

    def __init__(self, v, g, H, d):
        self.v = v      # (P,)
        self.g = g      # (n, P)
        self.H = H      # (n, n, P)
        self.d = d      # (n,) bool: syntactic dependency on each differentiation variable


class JetAlg:
    """Second-order forward-mode differentiation in n variables, vectorised over P points.

    `names` fixes the order of the differentiation variables; `values[name]` has shape (P,).
    `ok` = mask of points inside the domain, `regular` = mask of points at which every
    elementary operation met on the way is twice differentiable."""

    def __init__(self, names, values, params=None, dtype=np.float64, npoints=None):
        self.dt = dtype
        self.names = list(names)
        self.index = {n: i for i, n in enumerate(self.names)}
        self.n = len(self.names)
        self.values = {k: np.atleast_1d(np.asarray(v, dtype=dtype)) for k, v in values.items()}
        self.params = params or {}
        if npoints is None:
            npoints = max([v.size for v in self.values.values()] + [1])
        self.P = P = npoints
        self.ok = np.ones(P, dtype=bool)
        self.regular = np.ones(P, dtype=bool)
        self._zv = np.zeros(P, dtype=dtype)
        self._zg = np.zeros((self.n, P), dtype=dtype)
        self._zH = np.zeros((self.n, self.n, P), dtype=dtype)
        self._zd = np.zeros(self.n, dtype=bool)
        # sing[j, p]: a non-differentiable elementary operation whose operand depends on
        # variable j was met at point p (entry-level refinement of `regular`)
        self.sing = np.zeros((self.n, P), dtype=bool)

    def _chk(self, j):
        self.ok &= np.isfinite(j.v)
        return j

    def _flag(self, reg, dep):
        reg = np.broadcast_to(np.asarray(reg, dtype=bool), (self.P,))
        self.regular &= reg
        if dep.any() and not reg.all():
            self.sing[np.ix_(dep, ~reg)] = True

    def const(self, c):
        return Jet(self._zv + self.dt(c), self._zg, self._zH, self._zd)

    def var(self, name):
        g = self._zg
        d = self._zd
        if name in self.index:
            g = np.zeros((self.n, self.P), dtype=self.dt)
            g[self.index[name], :] = 1
            d = np.zeros(self.n, dtype=bool)
            d[self.index[name]] = True
        return Jet(self._zv + self.values.get(name, self.dt(0)), g, self._zH, d)

    def param(self, name):
        return self.const(self.params[name])

    def add(self, a, b):
        with np.errstate(all="ignore"):
            return self._chk(Jet(a.v + b.v, a.g + b.g, a.H + b.H, a.d | b.d))

    def sub(self, a, b):
        with np.errstate(all="ignore"):
            return self._chk(Jet(a.v - b.v, a.g - b.g, a.H - b.H, a.d | b.d))

    def neg(self, a):
        return Jet(-a.v, -a.g, -a.H, a.d)

    def mul(self, a, b):
        with np.errstate(all="ignore"):
            o = a.g[:, None, :] * b.g[None, :, :]
            return self._chk(
                Jet(a.v * b.v, a.v * b.g + b.v * a.g,
                    a.v * b.H + b.v * a.H + o + o.transpose(1, 0, 2), a.d | b.d)
            )

    def _chain(self, a, fv, d1, d2):
        with np.errstate(all="ignore"):
            o = a.g[:, None, :] * a.g[None, :, :]
            return self._chk(Jet(fv, d1 * a.g, d1 * a.H + d2 * o, a.d))

    def un(self, f, a):
        fv, d1, d2, reg = _d1d2(f, a.v, self.dt)
        self._flag(reg, a.d)
        return self._chain(a, fv, d1, d2)

    def div(self, a, b):
        one = self.dt(1)
        with np.errstate(all="ignore"):
            self._flag(b.v != 0, b.d)
            r = self._chain(b, one / b.v, -one / (b.v * b.v), self.dt(2) / (b.v * b.v * b.v))
        return self.mul(a, r)

    def powc(self, a, k):
        """a ** k with k a literal constant of the formula."""
        kf = float(k)
        dt = self.dt
        x = a.v
        with np.errstate(all="ignore"):
            fv = np.power(x, dt(kf))
            if kf == 0.0:
                return self._chk(Jet(fv, self._zg, self._zH, a.d))
            if kf.is_integer() and kf >= 1:
                d1 = dt(kf) * np.power(x, dt(kf - 1))
                d2 = self._zv if kf == 1.0 else dt(kf * (kf - 1)) * np.power(x, dt(kf - 2))
                return self._chain(a, fv, d1, d2)
            if kf.is_integer():      # negative integer: differentiable where x != 0
                self._flag(x != 0, a.d)
            else:                    # non-integer: smooth only for x > 0
                self._flag(x > 0, a.d)
            d1 = dt(kf) * np.power(x, dt(kf - 1))
            d2 = dt(kf * (kf - 1)) * np.power(x, dt(kf - 2))
            return self._chain(a, fv, d1, d2)

    def pow(self, a, b):
        """General a ** b (exponent not a literal): smooth for a > 0 only (conservative)."""
        with np.errstate(all="ignore"):
            fv = np.power(a.v, b.v)
            pos = a.v > 0
            self._flag(pos, a.d | b.d)
            ok_saved = self.ok.copy()
            j = self.un("exp", self.mul(b, self.un("log", a)))
            self.ok = ok_saved & np.isfinite(fv)
        return Jet(fv, j.g, j.H, a.d | b.d)


# --------------------------------------------------------------------------- polynomials


class NonPoly(Exception):
    pass


class Poly:
    """Exact polynomial: dict {exponent tuple: Fraction}."""

    __slots__ = ("t",)

    def __init__(self, t):
        self.t = {m: c for m, c in t.items() if c != 0}

    def degree(self):
        return max((sum(m) for m in self.t), default=0)

    def is_const(self):
        return all(sum(m) == 0 for m in self.t)

    def const_value(self):
        return sum(self.t.values(), Fraction(0))

    def coeff(self, mono):
        return self.t.get(tuple(mono), Fraction(0))


class PolyAlg:
    def __init__(self, names, params=None):
        self.names = list(names)
        self.index = {n: i for i, n in enumerate(self.names)}
        self.n = len(self.names)
        self.params = params or {}
        self.zero = (0,) * self.n
        self.ok = True

    def const(self, c):
        c = float(c)
        if not math.isfinite(c):
            raise NonPoly("non-finite constant")
        return Poly({self.zero: Fraction(c)})

    def var(self, name):
        if name not in self.index:       # element never selected by the formula
            return Poly({})
        m = [0] * self.n
        m[self.index[name]] = 1
        return Poly({tuple(m): Fraction(1)})

    def param(self, name):
        return self.const(self.params[name])

    def add(self, a, b):
        t = dict(a.t)
        for m, c in b.t.items():
            t[m] = t.get(m, 0) + c
        return Poly(t)

    def neg(self, a):
        return Poly({m: -c for m, c in a.t.items()})

    def sub(self, a, b):
        return self.add(a, self.neg(b))

    def mul(self, a, b):
        t = {}
        for m1, c1 in a.t.items():
            for m2, c2 in b.t.items():
                m = tuple(i + j for i, j in zip(m1, m2))
                t[m] = t.get(m, 0) + c1 * c2
        return Poly(t)

    def div(self, a, b):
        if not b.is_const():
            raise NonPoly("division by a non-constant")
        d = b.const_value()
        if d == 0:
            raise NonPoly("division by zero")
        return Poly({m: c / d for m, c in a.t.items()})

    def powc(self, a, k):
        kf = float(k)
        if a.is_const():
            return self._const_fn(lambda v: np.power(np.float64(v), np.float64(kf)), a)
        if kf.is_integer() and kf >= 0:
            r = Poly({self.zero: Fraction(1)})
            for _ in range(int(kf)):
                r = self.mul(r, a)
            return r
        raise NonPoly("non-natural power of a non-constant")

    def pow(self, a, b):
        if b.is_const():
            return self.powc(a, float(b.const_value()))
        raise NonPoly("variable exponent")

    def _const_fn(self, fn, *args):
        with np.errstate(all="ignore"):
            v = float(fn(*[float(a.const_value()) for a in args]))
        if not math.isfinite(v):
            raise NonPoly("undefined constant")
        return Poly({self.zero: Fraction(v)})

    def un(self, f, a):
        if f == "neg":
            return self.neg(a)
        if a.is_const():
            return self._const_fn(lambda v: _NP[f](np.float64(v)), a)
        raise NonPoly(f)
