"""C01  compiled callables == expression tree == mathematics (every V, point, path, parameter value)."""

from __future__ import annotations

from mc.callers import clear_lru  # noqa: E402

import itertools

import numpy as np

from mc import layers as L
from mc.build import Builder
from mc.engine import Report, detuple
from mc.interp import var_names, param_names, natural_key
from mc.minimise import minimise, size
from mc.oracle import grid_points, ref_value, close, point_dict
from checks.common import InPlace
from mc.callers import LiveMapping

ID = "C01"
LEVEL = "model_checking"
RULE = (
    "states = scalar recipes of the complete layers A (all trees of depth<=2 over 5 binary and 19 unary "
    "operators), B (all trees with <=N nodes over + - * / ** neg and the simplifier leaves), C (all unary "
    "chains of length<=3) and D (every scalar-valued vector/matrix node kind in every depth<=1 context); "
    "transitions = public-API calls executed on the real code (builder operations, compile calls, "
    "Parameter.set); an evaluation = one (recipe, variable list V, path, parameter value, point) compared "
    "with the float64/longdouble reference interpreter.  A case is non-trivial when the recipe mentions "
    ">=1 variable and has >=1 in-domain grid point; distinct by canonical recipe tuple."
)
ASSUMPTIONS = [
    "reference interpreter mc/interp.py + mc/alg.py (NumPy ufunc semantics in float64 and longdouble)",
    "points restricted to the dyadic grids of mc/oracle.py; tolerance 1e-9 relative plus measured conditioning",
]

PVALS = (0.75, 1.5)
NSH = 48


def shards(tier, seed):
    out = [("A", i, NSH) for i in range(NSH)]
    out += [("B", i, 8) for i in range(8)]
    out += [("C", i, 4) for i in range(4)]
    out += [("D", i, 8) for i in range(8)]
    return out


def recipes_for(item, tier):
    layer, i, n = item
    if layer == "A":
        gen = L.layer_A(L.LEAVES[4 if tier == "quick" else 6])
    elif layer == "B":
        gen = L.layer_B(5 if tier == "quick" else 6)
    elif layer == "C":
        gen = L.layer_C(3)
    else:
        gen = L.layer_D()
    return L.shard(gen, i, n)


def v_menu(names, tier):
    """Ordered variable lists V with vars(e) subset of V: natural, reversed, supersets with a foreign
    variable at the front / in the middle / at the end; all permutations for <=3 names (thorough)."""
    nat = sorted(names, key=natural_key)
    z = "zz"
    menu = [("natural", nat)]
    if len(nat) > 1:
        menu.append(("reversed", nat[::-1]))
    menu.append(("superset-front", [z] + nat[::-1]))
    mid = len(nat) // 2
    menu.append(("superset-mid", nat[:mid] + [z] + nat[mid:]))
    if tier == "thorough":
        menu.append(("superset-end", nat + [z]))
        if 2 < len(nat) <= 3:
            for k, p in enumerate(itertools.permutations(nat)):
                menu.append((f"perm{k}", list(p)))
        elif len(nat) > 3:
            menu.append(("rotated", nat[1:] + nat[:1]))
            menu.append(("interleaved", nat[::2] + [z] + nat[1::2]))
    seen, out = set(), []
    for lab, v in menu:
        if tuple(v) not in seen:
            seen.add(tuple(v))
            out.append((lab, v))
    return out


def _scalar(val):
    a = np.asarray(val)
    if a.size != 1:
        raise ValueError(f"non-scalar result of shape {a.shape}")
    return float(a.reshape(-1)[0])


def check_recipe(r, tier, seed, rep=None, want=None):
    """Explore one recipe completely; returns list of (kind, detail).  `want` restricts to one kind."""
    from optyx.core import compiler
    from optyx.core.expressions import Expression

    fails = []

    def fail(kind, **d):
        if want is None or kind == want:
            fails.append((kind, d))

    names = var_names(r)
    pnames = param_names(r)
    params = {p: PVALS[0] for p in pnames}
    pts, P = grid_points(names, seed, full=(tier == "thorough"))
    try:
        ref0, ok0, err0 = ref_value(r, pts, P, params)
    except Exception as e:  # the recipe denotes nothing (shape error): not in this property
        if rep:
            rep.skipped["no_denotation:" + type(e).__name__] += 1
        return fails
    refs = [(ref0, ok0, err0)]
    if pnames:
        refs.append(ref_value(r, pts, P, {p: PVALS[1] for p in pnames}))
    if not any(ok.any() for _, ok, _ in refs):
        if rep:
            rep.skipped["empty_domain_on_grid"] += 1
        return fails
    b = Builder(params=params)
    try:
        e = b.build(r)
    except Exception as ex:
        fail("exception:build:" + type(ex).__name__, msg=str(ex)[:200])
        return fails
    if not isinstance(e, Expression):
        if rep:
            rep.skipped["folds_to_python_number"] += 1
        return fails
    if rep:
        rep.states += 1
        rep.transitions += size(r)
        if names:
            rep.nt(r)

    closures = []   # (path label, V label, V names, callable taking point dict)
    menu = v_menu(names, tier)
    for vi, (vlab, vn) in enumerate(menu):
        V = b.variables_for(vn)

        def arr_of(pd, vn=vn):
            return np.array([pd.get(n, 0.125) for n in vn])

        try:
            f = compiler.compile_expression(e, V)
            closures.append(("compile", vlab, lambda pd, f=InPlace(f), a=arr_of: f(a(pd))))
        except Exception as ex:
            fail("exception:compile:" + type(ex).__name__, V=vlab, msg=str(ex)[:200])
            continue
        if rep:
            rep.transitions += 1
        if vi == 0:
            try:
                g = compiler.compile_to_dict_function(e, V)
                closures.append(("dict_fn", vlab, lambda pd, g=g: g({**{n: 0.125 for n in vn}, **pd})))
                ce = compiler.CompiledExpression(e, V)
                closures.append(("CompiledExpression.value", vlab, lambda pd, c=InPlace(ce.value), a=arr_of: c(a(pd))))
            except Exception as ex:
                fail("exception:CompiledExpression:" + type(ex).__name__, V=vlab, msg=str(ex)[:200])
            if rep:
                rep.transitions += 2
    # cached path: recompile for the first V after the other orders went through the LRU cache
    if menu:
        vlab, vn = menu[0]
        V = b.variables_for(vn)
        try:
            f2 = compiler.compile_expression(e, V)
            closures.append(("recompile", vlab, lambda pd, f=InPlace(f2), vn=vn: f(np.array([pd.get(n, 0.125) for n in vn]))))
        except Exception as ex:
            fail("exception:compile:" + type(ex).__name__, V=vlab, msg=str(ex)[:200])
        # deep-tree builder forced on this small tree
        old = compiler._RECURSION_THRESHOLD
        try:
            compiler._RECURSION_THRESHOLD = 0
            clear_lru(compiler)
            vlab2, vn2 = menu[-1]
            f3 = compiler.compile_expression(e, b.variables_for(vn2))
            closures.append(("iterative", vlab2, lambda pd, f=InPlace(f3), vn=vn2: f(np.array([pd.get(n, 0.125) for n in vn]))))
        except Exception as ex:
            fail("exception:compile-iterative:" + type(ex).__name__, msg=str(ex)[:200])
        finally:
            compiler._RECURSION_THRESHOLD = old
            clear_lru(compiler)
        if rep:
            rep.transitions += 2
    closures.append(("evaluate", "-", LiveMapping(e.evaluate)))
    # non-initial state: the same formula built as a DAG (shared sub-expression objects) whose sub-expressions
    # were all compiled before the root (their closures sit in the LRU cache when the root is compiled)
    if menu and size(r) > 1:
        try:
            from mc.interp import walk, kind_of

            bs = Builder(params=params, share_scalars=True)
            root = bs.build(r)
            vlab, vn = menu[0]
            Vs = bs.variables_for(vn)
            subs = sorted({s_ for s_ in walk(r) if kind_of(s_) == "s" and s_ != r}, key=lambda t: (size(t), repr(t)))
            for sub in subs:
                o = bs.build(sub)
                if isinstance(o, Expression):
                    compiler.compile_expression(o, Vs)
            if isinstance(root, Expression):
                f4 = compiler.compile_expression(root, Vs)
                closures.append(("dag-bottom-up", vlab, lambda pd, f=InPlace(f4), vn=vn: f(np.array([pd.get(n, 0.125) for n in vn]))))
                closures.append(("dag-evaluate", "-", LiveMapping(root.evaluate)))
                # the deep-tree builder on the DAG (interior nodes shared by several parents)
                old_t = compiler._RECURSION_THRESHOLD
                try:
                    compiler._RECURSION_THRESHOLD = 0
                    clear_lru(compiler)
                    f5 = compiler.compile_expression(root, Vs)
                    closures.append(("dag-iterative", vlab, lambda pd, f=InPlace(f5), vn=vn: f(np.array([pd.get(n, 0.125) for n in vn]))))
                finally:
                    compiler._RECURSION_THRESHOLD = old_t
                    clear_lru(compiler)
                for p_ in pnames:
                    b.named[("par", p_)] = b.parameter(p_)
                dag_params = [bs.parameter(p_) for p_ in pnames]
            else:
                dag_params = []
            if rep:
                rep.transitions += len(subs) + 1
        except Exception as ex:
            dag_params = []
            fail("exception:compile-dag:" + type(ex).__name__, msg=str(ex)[:200])
    else:
        dag_params = []

    for phase, (ref, ok, err) in enumerate(refs):
        if phase == 1:
            for dp in dag_params:
                dp.set(PVALS[1])
            for p in pnames:
                b.parameter(p).set(PVALS[1])
                if rep:
                    rep.transitions += 1
        idx = np.flatnonzero(ok)
        for k in idx:
            pd = point_dict(pts, k)
            for path, vlab, fn in closures:
                if rep:
                    rep.evaluations += 1
                try:
                    got = _scalar(fn(pd))
                except Exception as ex:
                    fail(f"exception:call:{path}:" + type(ex).__name__, V=vlab, point=pd, msg=str(ex)[:200])
                    continue
                if not close(got, ref[k], err[k]):
                    fail(f"value-mismatch:{path}" + (":after-set" if phase else ""), V=vlab, point=pd,
                         got=got, expected=float(ref[k]))
    if rep:
        rep.outcomes["paths:%d" % len(closures)] += 1
        rep.skipped["out_of_domain_points"] += int(sum((~ok).sum() for _, ok, _ in refs))
    return fails


def explore(item, tier, seed):
    rep = Report()
    for r in recipes_for(item, tier):
        fs = check_recipe(r, tier, seed, rep)
        seen = set()
        for kind, d in fs:
            if kind in seen:
                continue
            seen.add(kind)
            rep.violation(kind, {"recipe": r}, **d)
        if rep.states % 997 == 1:
            rep.sample({"recipe": r, "layer": item[0]})
    return rep


def culprit(v):
    r = detuple(v["case"]["recipe"])
    kind = v["kind"]
    rmin = minimise(r, lambda c: bool(check_recipe(c, "quick", 0, None, want=kind)))
    return {"kind": kind, "recipe": rmin}


def replay(art):
    r = detuple(art["culprit"]["recipe"])
    fs = check_recipe(r, "quick", art.get("seed", 0), None, want=art["culprit"]["kind"])
    return [{"kind": k, "detail": d} for k, d in fs]
