"""Reference values / derivatives on point grids, with conditioning-aware tolerances.

The reference is evaluated twice, in float64 and in longdouble; the gap between the two
is a measured bound on how ill-conditioned the formula is at that point and is added
(times a safety factor) to the comparison tolerance, so that cancellation can never
raise an alarm (DESIGN.md section 3, rule 4).
"""

from __future__ import annotations

import numpy as np

from mc.alg import FloatAlg, JetAlg, PolyAlg, NonPoly  # noqa: F401
from mc.interp import Interp, ShapeError, kind_of, var_names, param_names  # noqa: F401

G5 = (-1.5, -0.5, 0.25, 0.75, 2.0)
AUX = ((-2.5, 1.25, 0.5), (-0.75, 1.5, 3.0), (-1.25, 0.125, 1.75))
REL_V = 1e-9
REL_D = 1e-8
COND = 1e4


def grid_points(names, seed=0, full=True, P=8):
    """Point menu for the given scalar names: dict name -> array (P,).

    <= 2 names: the full product of the base grid (plus one seed-selected auxiliary grid);
    more names: P fixed points whose coordinates run through the grid in different strides
    (every grid value occurs for every variable)."""
    g = list(G5) + list(AUX[seed % 3])      # the seed only selects which fixed auxiliary grid is appended
    n = len(names)
    if n == 0:
        return {}, 1
    if n <= 2 and full:
        mesh = np.array(np.meshgrid(*[g] * n, indexing="ij")).reshape(n, -1)
        return {nm: mesh[i] for i, nm in enumerate(names)}, mesh.shape[1]
    L = len(g)
    P = max(P, L)
    pts = {}
    for j, nm in enumerate(names):
        stride = 1 + (j % (L - 1))
        pts[nm] = np.array([g[(j + stride * k + (k // L) * (j + 1)) % L] for k in range(P)])
    return pts, P


def ref_value(r, pts, P, params):
    """(values float64 (P,) or arrays for vector/matrix recipes, ok mask, err bound)."""
    A = FloatAlg(pts, params, np.float64, P)
    B = FloatAlg(pts, params, np.longdouble, P)
    va = Interp(A).ev(r)
    vb = Interp(B).ev(r)
    k = kind_of(r)
    if k == "s":
        va = np.broadcast_to(np.asarray(va, dtype=np.float64), (P,))
        vb = np.broadcast_to(np.asarray(vb, dtype=np.longdouble), (P,))
    elif k == "v":
        va = np.array([np.broadcast_to(np.asarray(x, dtype=np.float64), (P,)) for x in va])
        vb = np.array([np.broadcast_to(np.asarray(x, dtype=np.longdouble), (P,)) for x in vb])
    else:
        va = np.array([[np.broadcast_to(np.asarray(x, dtype=np.float64), (P,)) for x in row] for row in va])
        vb = np.array([[np.broadcast_to(np.asarray(x, dtype=np.longdouble), (P,)) for x in row] for row in vb])
    with np.errstate(all="ignore"):
        err = np.abs(va.astype(np.longdouble) - vb).astype(np.float64) * COND
    ok = A.ok & B.ok
    return va, ok, err


def ref_jet(r, wrt, pts, P, params):
    """value, gradient (n,P), Hessian (n,n,P), ok, regular, errg, errH for a scalar recipe."""
    A = JetAlg(wrt, pts, params, np.float64, P)
    B = JetAlg(wrt, pts, params, np.longdouble, P)
    ja = Interp(A).ev(r)
    jb = Interp(B).ev(r)
    with np.errstate(all="ignore"):
        errg = np.abs(ja.g.astype(np.longdouble) - jb.g).astype(np.float64) * COND
        errH = np.abs(ja.H.astype(np.longdouble) - jb.H).astype(np.float64) * COND
        errv = np.abs(ja.v.astype(np.longdouble) - jb.v).astype(np.float64) * COND
    ok = A.ok & B.ok
    reg = A.regular & B.regular & np.all(np.isfinite(ja.g), axis=0) & np.all(np.isfinite(ja.H), axis=(0, 1))
    return ja.v, ja.g, ja.H, ok, reg, errv, errg, errH


def close(a, b, err=0.0, rel=REL_V):
    """|a-b| <= rel*max(1,|a|,|b|) + err, elementwise; NaN never close."""
    a = np.asarray(a, dtype=float)
    b = np.asarray(b, dtype=float)
    with np.errstate(all="ignore"):
        tol = rel * np.maximum(1.0, np.maximum(np.abs(a), np.abs(b))) + err
        return np.abs(a - b) <= tol


def ref_poly(r, names, params):
    """Exact polynomial of a scalar recipe over `names`, or None when it is not (syntactically) one."""
    try:
        return Interp(PolyAlg(names, params)).ev(r)
    except (NonPoly, ZeroDivisionError, OverflowError):
        return None


def point_dict(pts, k):
    return {nm: float(a[k]) for nm, a in pts.items()}


class JetRef:
    """Reference jet data with entry-level singularity information (used by C19)."""

    def __init__(self, r, wrt, pts, P, params):
        A = JetAlg(wrt, pts, params, np.float64, P)
        B = JetAlg(wrt, pts, params, np.longdouble, P)
        ja = Interp(A).ev(r)
        jb = Interp(B).ev(r)
        with np.errstate(all="ignore"):
            self.eg = np.nan_to_num(np.abs(ja.g.astype(np.longdouble) - jb.g).astype(np.float64) * COND, nan=0.0, posinf=0.0)
            self.eH = np.nan_to_num(np.abs(ja.H.astype(np.longdouble) - jb.H).astype(np.float64) * COND, nan=0.0, posinf=0.0)
        self.v, self.g, self.H = ja.v, ja.g, ja.H
        self.ok = A.ok & B.ok
        self.regular = A.regular & B.regular
        self.sing = A.sing | B.sing          # (n, P)
