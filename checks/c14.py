"""C14  independent models do not interfere through process-wide caches (every execution in a fresh forked child)."""

from __future__ import annotations

import itertools
import warnings

from checks.common import Fails, Report, detuple, np
from mc.forkexec import pristine, run_in_child, warm_scipy

ID = "C14"
LEVEL = "model_checking"
RULE = (
    "states = histories N_1 .. N_k ; observe M with k <= 2 (quick) / 3 (thorough): M ranges over 14 models (a bare vectorised power sum over a strict subset of the variables, with the variant 'unrelated dense model with the same number of variables'; views whose generated name and size do not identify their elements - partial matrix rows, stepped and reversed slices - with the variant 'other view of the same name and size'; scalar NLP "
    "with a parameter, LP over a vector, vector QP, quadratic form, bare-parameter gradient p*w, a Variable as the "
    "whole expression, a Parameter as the whole expression, matrix sums, vectorised power / function sums, a "
    "450-term chain, parameterised constraint, norms) and every N_i over an adversarial menu derived from M: the "
    "same names with other bounds / domain / size, the same parameter names with other values, structurally "
    "identical expressions over the same names with different numeric data (bare and nested inside a BinaryOp), "
    "M's own leaves as roots, each combined with a prefix action {build only, evaluate, compile value / gradient / "
    "Jacobian / Hessian, degree, solve auto, solve SLSQP}, plus two flood actions that push 1100 compiles and 4200 "
    "gradients (beyond LRU capacity) through the caches, plus ADDRESS-REUSE steps: N (a variant of M) lives, acts and "
    "dies, and the nodes of M are then given the addresses (id()) of N's dead nodes - the allocator's choice is an "
    "environment answer decided by the harness through a module-global id seam, only addresses verified dead are "
    "handed out; and SHARED-DATA steps: the earlier model was built from the same user-owned coefficient array objects, "
    "which are refreshed in place before M is built.  Every execution runs in a forked child of a pristine "
    "parent (no optyx object ever built in it) and its observations on M (values, symbolic and compiled "
    "derivatives, degree, variables, bounds, solve results under auto and SLSQP) are compared for exact equality "
    "with M observed alone in such a child.  transitions = prefix actions + observations executed on the real "
    "code; non-trivial = every history with k >= 1."
)
ASSUMPTIONS = [
    "a forked child of a process whose optyx caches are empty is equivalent to a fresh process (asserted before every fork)",
    "observations are deterministic (same floats): verified by observing M alone twice per model",
]

VARIANTS = ("same", "bounds", "pvalue", "data", "size", "domain")


def model_builders(shared=None):
    """shared: a dict of user-owned coefficient arrays that live across the models of one execution - a rolling-window
    loop refreshes the SAME ndarray object in place (cov[:] = new_cov) before it builds the next model."""
    import optyx
    from optyx import Variable, VectorVariable, MatrixVariable, Parameter, Problem

    def alt(variant, key, a, b):
        return b if variant == key else a

    def data(key, values):
        values = np.array(values, dtype=float)
        if shared is None:
            return values
        a = shared.get(key)
        if a is None or a.shape != values.shape:
            a = shared[key] = values.copy()
        else:
            a[...] = values
        return a

    def m_scalar(v=None):
        x = Variable("x", lb=alt(v, "bounds", 0.0, -3.0), ub=alt(v, "bounds", 5.0, 1.0), domain=alt(v, "domain", "continuous", "integer"))
        p = Parameter("p", alt(v, "pvalue", 2.0, -1.0))
        k = alt(v, "data", 1.0, 3.0)
        e = (x - k) ** 2 + p * x
        return dict(e=e, cons=[], vars=[x], P=Problem().minimize(e), roots=[x, p])

    def m_lp(v=None):
        n = alt(v, "size", 3, 4)
        w = VectorVariable("v", n, lb=alt(v, "bounds", 0.0, 1.0), ub=2.0, domain=alt(v, "domain", "continuous", "integer"))
        c = data("lp.c", np.arange(1.0, n + 1) * alt(v, "data", 1.0, -2.0))
        e = c @ w
        if v == "poison":
            # an unrelated earlier model with degenerate DATA: a constant sub-expression that divides by zero / is 0 * inf
            from optyx.core.expressions import Constant

            e = e + (Constant(1.0) / 0.0) * w[0] + ((Constant(0.0) / 0.0) * 2) * w[1]
        con = w.sum() >= 1
        return dict(e=e, cons=[con], vars=list(w), P=Problem().minimize(e).subject_to(con), roots=[w[0]])

    def m_qp(v=None):
        n = alt(v, "size", 3, 2)
        w = VectorVariable("v", n, lb=alt(v, "bounds", -5.0, 0.5), ub=5.0)
        c = data("qp.c", np.arange(1.0, n + 1) * alt(v, "data", 1.0, 0.25))
        e = w.dot(w) - c @ w
        return dict(e=e, cons=[], vars=list(w), P=Problem().minimize(e), roots=[w[0]])

    def m_qform(v=None):
        w = VectorVariable("v", 3, lb=alt(v, "bounds", -4.0, 0.0), ub=4.0)
        Q = data("qform.Q", np.array([[2.0, 0.5, 0.0], [0.5, 1.0, 0.25], [0.0, 0.25, 3.0]]) * alt(v, "data", 1.0, 2.0)
                 + (np.array([[0.0, 0.3, 0.0], [-0.3, 0.0, 0.0], [0.0, 0.0, 0.0]]) if v == "data" else 0.0))
        e = optyx.quadratic_form(w, Q) - 2 * w.sum()
        con = (data("qform.a", [1.0, 1.0, alt(v, "data", 1.0, -1.0)]) @ w) <= 2
        return dict(e=e, cons=[con], vars=list(w), P=Problem().minimize(e).subject_to(con), roots=[w[1]])

    def m_param_gradient(v=None):
        w = Variable("w", lb=alt(v, "bounds", 0.0, -1.0), ub=3.0)
        p = Parameter("p", alt(v, "pvalue", 1.5, 7.0))
        e = p * w + alt(v, "data", 0.0, 1.0)
        return dict(e=e, cons=[], vars=[w], P=Problem().minimize(e), roots=[p, w])

    def m_variable_root(v=None):
        x = Variable("x", lb=alt(v, "bounds", 1.0, -2.0), ub=alt(v, "bounds", 3.0, 0.0), domain=alt(v, "domain", "continuous", "binary"))
        return dict(e=x, cons=[], vars=[x], P=Problem().minimize(x), roots=[x])

    def m_parameter_root(v=None):
        x = Variable("x", lb=0.0, ub=1.0)
        p = Parameter("q", alt(v, "pvalue", 4.0, -4.0))
        return dict(e=p, cons=[x >= 0.5], vars=[x], P=Problem().minimize(p * 1 + x), roots=[p])

    def m_matrix(v=None):
        r = alt(v, "size", 2, 3)
        A = MatrixVariable("A", r, 2, lb=alt(v, "bounds", 0.0, -1.0), ub=3.0)
        e = (A * A).sum() - alt(v, "data", 2.0, 5.0) * A.sum()
        return dict(e=e, cons=[], vars=[A[i, j] for i in range(r) for j in range(2)], P=Problem().minimize(e), roots=[A[0, 0]])

    def m_vectorised(v=None):
        w = VectorVariable("v", 3, lb=alt(v, "bounds", 0.5, 0.1), ub=3.0)
        e = (w ** alt(v, "data", 3, 2)).sum() + optyx.exp(w).sum()
        return dict(e=e, cons=[], vars=list(w), P=Problem().minimize(e), roots=[w[2]])

    def m_deep(v=None):
        xs = [Variable(n, lb=-2.0, ub=alt(v, "bounds", 2.0, 1.0)) for n in ("a", "b", "c")]
        k = alt(v, "data", 1.0, 0.5)
        e = (xs[0] - k) ** 2
        for i in range(1, alt(v, "size", 450, 30)):
            e = e + (xs[i % 3] - k * (i % 4)) ** 2
        return dict(e=e, cons=[], vars=xs, P=Problem().minimize(e), roots=[xs[0]], no_hessian=True)

    def m_param_constraint(v=None):
        x = Variable("x", lb=0.0, ub=alt(v, "bounds", 10.0, 2.0))
        y = Variable("y", lb=0.0, ub=10.0)
        p = Parameter("p", alt(v, "pvalue", 3.0, 0.5))
        e = (x - 4) ** 2 + (y - alt(v, "data", 4.0, 1.0)) ** 2
        con = x + y <= p
        return dict(e=e, cons=[con], vars=[x, y], P=Problem().minimize(e).subject_to(con), roots=[p])

    def m_norm(v=None):
        w = VectorVariable("v", 3, lb=alt(v, "bounds", 0.25, 1.0), ub=4.0)
        t = data("norm.t", np.array([1.0, 2.0, 0.5]) * alt(v, "data", 1.0, 3.0))
        e = optyx.core.vectors.norm(w - t, 2) + 0.5 * optyx.core.vectors.norm(w, 1)
        return dict(e=e, cons=[], vars=list(w), P=Problem().minimize(e), roots=[w[0]])

    def m_views(v=None):
        # views whose generated (name, size) does not identify the elements they select
        W = MatrixVariable("W", 2, 3, lb=alt(v, "bounds", -5.0, -1.0), ub=5.0)
        x = VectorVariable("x", 5, lb=-5.0, ub=5.0)
        row = W[0, 1:] if v == "view" else W[0, :2]
        st = x[::4] if v == "view" else x[::3]
        rv = x[:] if v == "view" else x[::-1]
        k = alt(v, "data", 1.0, 2.0)
        c5 = np.array([1.0, -2.0, 0.5, 3.0, -1.5])
        e = ((np.array([5.0, 7.0]) * k) @ row - 1) ** 2 + st.dot(st) + (c5 @ rv - 2) ** 2 + (row ** 2).sum() + optyx.core.vectors.norm(st - k, 2)
        vs = [W[i, j] for i in range(2) for j in range(3)] + list(x)
        return dict(e=e, cons=[], vars=vs, P=Problem().minimize(e), roots=[W[0, 1], x[4]], no_hessian=True)

    def m_bare_power(v=None):
        # a bare vectorised power sum over a strict subset of the problem's variables (sparse Hessian fast path);
        # variant 'dense': an unrelated model with the SAME NUMBER of variables and a dense Hessian
        x = VectorVariable("x", 2, lb=alt(v, "bounds", 0.5, 0.25), ub=3.0)
        y = Variable("y", lb=0.0, ub=2.0)
        if v == "dense":
            a, b, c_ = Variable("a", lb=0.1, ub=2.0), Variable("b", lb=0.1, ub=2.0), Variable("c", lb=0.1, ub=2.0)
            e = (a * b + b * c_ + c_ * a) ** 2 + optyx.exp(a - b) + (c_ - 1) ** 4
            con = a + b + c_ <= 4
            return dict(e=e, cons=[con], vars=[a, b, c_], P=Problem().minimize(e).subject_to(con), roots=[a])
        e = (x ** alt(v, "data", 4, 3)).sum()
        con = x[0] + x[1] + y >= 2.5
        return dict(e=e, cons=[con], vars=[x[0], x[1], y], P=Problem().minimize(e).subject_to(con), roots=[x[0]])

    def m_large(v=None):
        # more variables than optyx's large-problem threshold, from TWO containers (the general variable-collection path)
        n = alt(v, "size", 600, 550)
        x = VectorVariable("x", n, lb=alt(v, "bounds", 0.0, 2.0), ub=alt(v, "bounds", 1.0, 3.0), domain=alt(v, "domain", "continuous", "integer"))
        y = VectorVariable("y", n, lb=alt(v, "bounds", 0.0, 2.0), ub=alt(v, "bounds", 1.0, 3.0))
        k = alt(v, "data", 2.0, -1.0)
        e = x.sum() + k * y.sum()
        con = x[0] + y[1] >= 1
        return dict(e=e, cons=[con], vars=list(x) + list(y), P=Problem().minimize(e).subject_to(con), roots=[x[0]],
                    no_hessian=True, lean=True)

    return {
        "large-two-containers": m_large,
        "bare-power": m_bare_power,
        "views": m_views,
        "scalar-nlp": m_scalar, "lp": m_lp, "vector-qp": m_qp, "quadratic-form": m_qform,
        "param-gradient": m_param_gradient, "variable-root": m_variable_root, "parameter-root": m_parameter_root,
        "matrix": m_matrix, "vectorised": m_vectorised, "deep-chain": m_deep, "param-constraint": m_param_constraint,
        "norm": m_norm,
    }


ACTIONS = ("build", "evaluate", "compile", "degree", "solve-auto", "solve-SLSQP", "nested-compile", "roots", "gradient", "solve-options")
REUSE_ACTIONS = ("gradient", "degree", "compile", "solve-auto", "solve-SLSQP", "evaluate")


class AddressReuse:
    """Environment seam for object addresses.  CPython may give a new object the address (= id()) of any object
    that has died; which one is allocator luck.  Here the harness decides: optyx's modules see id() through this
    function (a module global shadows the builtin - no source change), and the nodes of M are given the ids of the
    nodes of a DEAD earlier model N at the same position.  Only ids of objects verified dead (absent from
    gc.get_objects()) and not since re-occupied are handed out, so every answer is one the real allocator could give."""

    def __init__(self):
        self.map = {}        # real id -> id shown to optyx
        self.inv = {}        # shown id -> real id of the object showing it (None: nobody)
        self.fixed = set()

    def show(self, real, d, live):
        """Make the object at `real` show address d.  The shown ids stay a permutation of addresses: whoever
        showed d before (an object really re-occupying it) is shown the address given up - also a realistic answer."""
        if real in self.fixed:
            return False
        cur = self.map.get(real, real)
        self.fixed.add(real)
        if cur == d:
            return True
        other = self.inv.get(d, d if d in live else None)
        if other is not None and other in self.fixed:
            self.fixed.discard(real)
            return False
        self.map[real], self.inv[d] = d, real
        if other is not None:
            self.map[other], self.inv[cur] = cur, other
        else:
            self.inv[cur] = None
        return True

    def fake(self, obj):
        i = id(obj)
        return self.map.get(i, i)

    def install(self):
        import sys

        for name, mod in list(sys.modules.items()):
            if name == "optyx" or name.startswith("optyx."):
                mod.__dict__["id"] = self.fake


def spine(built):
    """root objects of a model and the nodes along their left spines"""
    out = []
    for root in [built["e"]] + [c.expr for c in built["cons"]]:
        node = root
        for _ in range(600):
            out.append(node)
            nxt = getattr(node, "left", None)
            if nxt is None:
                nxt = getattr(node, "operand", None)
            if nxt is None or isinstance(nxt, (int, float)):
                break
            node = nxt
    return out


def points(n):
    return [np.array([0.75 + 0.25 * i for i in range(n)]), np.array([1.5 - 0.125 * i for i in range(n)])]


def act(built, action):
    """A prefix action on a (foreign) model."""
    from optyx.core import compiler, autodiff

    e, V = built["e"], built["vars"]
    with warnings.catch_warnings():
        warnings.simplefilter("ignore")
        try:
            if action == "evaluate":
                e.evaluate({v.name: 0.5 for v in V})
            elif action == "compile":
                compiler.compile_expression(e, V)
                compiler.compile_gradient(e, V)
                autodiff.compile_jacobian([e] + [c.expr for c in built["cons"]], V)
                if not built.get("no_hessian"):
                    hf = autodiff.compile_hessian(e, V)
                    hf(np.array([0.5 + 0.25 * i for i in range(len(V))]))      # compiled callables are also CALLED
                compiler.compile_gradient(e, V)(np.array([0.5 + 0.25 * i for i in range(len(V))]))
            elif action == "degree":
                e.degree
                e.is_linear()
            elif action == "gradient":
                for v in V:
                    autodiff.gradient(e, v)
                autodiff.compute_jacobian([e] + [c.expr for c in built["cons"]], V)
            elif action == "solve-auto":
                built["P"].solve()
            elif action == "solve-SLSQP":
                built["P"].solve(method="SLSQP")
            elif action == "solve-options":
                # per-call solver options of an earlier solve (tight iteration cap, loose tolerance) for every method
                for m_ in ("auto", "SLSQP", "L-BFGS-B", "trust-constr"):
                    try:
                        built["P"].solve(**({} if m_ == "auto" else {"method": m_}), maxiter=2, tol=1e-2)
                    except Exception:
                        pass
            elif action == "nested-compile":
                f = (e * 2.0) + 1.0
                compiler.compile_expression(f, V)
                compiler.compile_gradient(f, V)
            elif action == "roots":
                for r in built["roots"]:
                    compiler.compile_expression(r, V[::-1] + V[:0])
                    compiler.compile_gradient(r, V)
                    for v in V:
                        autodiff.gradient(r, v)
        except Exception:
            pass


def flood(kind):
    import optyx
    from optyx.core import compiler, autodiff

    x = optyx.Variable("x")
    v = optyx.Variable("v[0]")
    if kind == "compiles":
        for i in range(1100):
            compiler.compile_expression(x * float(i) + v, [x, v])
    else:
        for i in range(2100):
            e = optyx.sin(x * float(i)) + v
            autodiff.gradient(e, x)
            autodiff.gradient(e, v)


def observe(built):
    """The observation set on M: plain Python data (exact floats)."""
    from optyx.core import compiler, autodiff

    e, V = built["e"], built["vars"]
    n = len(V)
    out = {}

    def rec(label, fn):
        try:
            out[label] = fn()
        except Exception as ex:
            out[label] = ("raised", type(ex).__name__, str(ex)[:120])

    pts = points(n)
    with warnings.catch_warnings():
        warnings.simplefilter("ignore")
        rec("evaluate", lambda: [repr(float(np.asarray(e.evaluate({v.name: float(p[i]) for i, v in enumerate(V)})))) for p in pts])
        rec("compile", lambda: (lambda f: [repr(float(np.asarray(f(p)))) for p in pts])(compiler.compile_expression(e, V)))
        rec("compile-reversed", lambda: (lambda f: [repr(float(np.asarray(f(p[::-1])))) for p in pts])(compiler.compile_expression(e, V[::-1])))
        rec("gradient", lambda: [[repr(float(np.asarray(autodiff.gradient(e, v).evaluate({w.name: float(p[i]) for i, w in enumerate(V)}))))
                                  for v in V[:3]] for p in pts])
        rec("compile_gradient", lambda: (lambda f: [np.asarray(f(p), dtype=float).tolist() for p in pts])(compiler.compile_gradient(e, V)))
        rec("compile_jacobian", lambda: (lambda f: [np.asarray(f(p), dtype=float).tolist() for p in pts])(
            autodiff.compile_jacobian([e] + [c.expr for c in built["cons"]], V)))
        if not built.get("no_hessian"):
            rec("compile_hessian", lambda: (lambda f: [np.asarray(f(p), dtype=float).tolist() for p in pts])(autodiff.compile_hessian(e, V)))
        rec("degree", lambda: (e.degree, e.is_linear()))
        rec("roots", lambda: [[repr(float(np.asarray(compiler.compile_expression(r, V)(p)))) for p in pts] for r in built["roots"]])
        rec("root-gradients", lambda: [np.asarray(compiler.compile_gradient(r, V)(pts[0]), dtype=float).tolist() for r in built["roots"]])
        P = built["P"]
        # process-global modes an earlier model could have left behind
        import sys as _sys

        rec("process-globals", lambda: (sorted(np.geterr().items()), _sys.getrecursionlimit()))
        rec("variables", lambda: [v.name for v in P.variables])
        rec("bounds", lambda: [tuple(b) for b in P.get_bounds()])
        for m in ("auto",) if built.get("lean") else ("auto", "SLSQP"):
            def solve(m=m):
                s = P.solve(**({} if m == "auto" else {"method": m}))
                return (s.status.value, None if s.objective_value is None else repr(float(s.objective_value)),
                        {k: repr(float(v)) for k, v in s.values.items()})
            rec("solve-" + m, solve)
    return out


def execute(model, prefix):
    """Runs inside the forked child: the adversarial prefix, then the observation of M."""
    import gc

    B = model_builders(shared={} if any(step[0] == "shared" for step in prefix) else None)
    prefix = tuple(("adv",) + tuple(step[1:]) if step[0] == "shared" else step for step in prefix)
    seam = None
    dead_ids = []
    for step in prefix:
        if step[0] == "flood":
            flood(step[1])
        elif step[0] == "reuse":
            # N lives and dies; the addresses of its nodes become available to later objects
            _, variant, action = step
            if seam is None:
                seam = AddressReuse()
                seam.install()
            b = B[model](variant)
            ids = [id(o) for o in spine(b)]
            act(b, action)
            del b
            gc.collect()
            still_alive = {id(o) for o in gc.get_objects()}
            # positions whose node really died (a node kept alive by a sound cache keeps its address for ever)
            dead_ids.append([i if i not in still_alive else None for i in ids])
        else:
            _, variant, action = step
            act(B[model](variant), action)
    bm = B[model](None)
    if seam is not None:
        gc.collect()
        live = {id(o) for o in gc.get_objects()}
        sp = spine(bm)
        tracked = all(id(o) in live for o in sp)
        n_set = 0
        if tracked:
            for ids in dead_ids:
                for pos, d in enumerate(ids):
                    if d is not None and pos < len(sp) and seam.show(id(sp[pos]), d, live):
                        n_set += 1
        obs = observe(bm)
        obs["_reuse"] = (n_set, tracked)
        return obs
    return observe(bm)


LEAN_MODELS = {"large-two-containers"}


def menu(model=None):
    variants = (VARIANTS + (("view",) if model == "views" else ()) + (("dense",) if model == "bare-power" else ())
                + (("poison",) if model == "lp" else ()))
    m = [("adv", v, a) for v in variants for a in ACTIONS]
    m += [("flood", "compiles"), ("flood", "gradients")]
    m += [("reuse", v, a) for v in VARIANTS for a in REUSE_ACTIONS]
    # the earlier model was built from the SAME coefficient array objects, refreshed in place before M is built
    m += [("shared", v, a) for v in ("data", "same") for a in ("compile", "gradient", "solve-auto", "solve-SLSQP")]
    return m


def shards(tier, seed):
    return [(name, i, 4) for name in model_builders() for i in range(4)]


def histories(tier, model=None):
    M = menu(model)
    yield ()
    if model in LEAN_MODELS:       # 1200 variables: single-step histories over the cheap actions (all actions in thorough)
        for a in M:
            if a[0] == "adv" and (tier == "thorough" or a[2] in ("build", "degree", "solve-auto", "evaluate")):
                yield (a,)
        return
    for a in M:
        yield (a,)
    if tier == "quick":
        core = [x for x in M if x[0] == "flood" or (x[0] == "adv" and x[1] in ("same", "pvalue", "data", "view", "dense", "poison") and x[2] in ("compile", "roots", "solve-auto"))
                or x == ("adv", "data", "solve-options") or x == ("shared", "data", "compile")
                or x in (("reuse", "data", "gradient"), ("reuse", "pvalue", "degree"))]
        for a in core:
            for b in core:
                yield (a, b)
    else:
        for a in M:
            for b in M:
                yield (a, b)
        core = [x for x in M if x[0] == "flood" or (x[0] == "adv" and x[1] in ("same", "pvalue", "data", "view", "dense") and x[2] in ("compile", "roots", "solve-auto"))
                or (x[0] == "reuse" and x[1] == "data" and x[2] in ("gradient", "degree"))]
        for t in itertools.product(core, repeat=3):
            yield t


def check_history(model, prefix, baseline):
    fails = Fails()
    st, obs = run_in_child(execute, model, prefix)
    if st != "ok":
        fails.add("harness:child-exception", model=model, prefix=prefix, text=obs[-400:])
        return fails
    reuse = obs.pop("_reuse", None)
    if reuse is not None:
        fails.reuse = reuse
    for key in baseline:
        if obs.get(key) != baseline[key]:
            fails.add("observation-depends-on-earlier-models:" + key, model=model, prefix=prefix, got=obs.get(key),
                      expected=baseline[key])
    return fails


def explore(item, tier, seed):
    model, i, n = item
    rep = Report()
    if not pristine():
        raise RuntimeError("worker process is not pristine (optyx caches are not empty)")
    warm_scipy()
    st, baseline = run_in_child(execute, model, ())
    st2, baseline2 = run_in_child(execute, model, ())
    if st != "ok" or st2 != "ok":
        raise RuntimeError("baseline failed: " + str(baseline)[-500:])
    if baseline != baseline2:
        raise RuntimeError(f"observations of {model} are not deterministic: {baseline} vs {baseline2}")
    rep.outcomes["baseline-deterministic"] += 1
    raised = [k for k, v in baseline.items() if isinstance(v, tuple) and v and v[0] == "raised"]
    if raised and i == 0:
        rep.extra["baseline_observations_that_raise:" + model] = raised
    for k, prefix in enumerate(histories(tier, model)):
        if k % n != i:
            continue
        if not pristine():
            raise RuntimeError("worker process lost its pristine state")
        fs = check_history(model, prefix, baseline)
        ru = getattr(fs, "reuse", None)
        if ru is not None:
            rep.outcomes["address-reuse:%s" % ("nodes-of-M-given-dead-addresses" if ru[0] else "no-dead-address (N kept alive by a cache)")] += 1
            rep.extra["address_reuse_collisions"] = rep.extra.get("address_reuse_collisions", 0) + ru[0]
        rep.states += 1
        rep.transitions += len(prefix) + len(baseline)
        rep.evaluations += len(baseline)
        rep.max_depth = max(rep.max_depth, len(prefix))
        if prefix:
            rep.nt((model, prefix))
        seen = set()
        for kind, d in fs:
            if kind not in seen:
                seen.add(kind)
                rep.violation(kind, {"model": model, "prefix": prefix}, **d)
        if k % 211 == 0:
            rep.sample({"model": model, "prefix": prefix})
    return rep


def culprit(v):
    model = v["case"]["model"]
    prefix = [tuple(p) for p in detuple(v["case"]["prefix"])]
    kind = v["kind"]
    st, baseline = run_in_child(execute, model, ())
    # drop prefix steps while the same observation still differs
    changed = True
    while changed and len(prefix) > 1:
        changed = False
        for j in range(len(prefix)):
            cand = prefix[:j] + prefix[j + 1:]
            if any(k == kind for k, _ in check_history(model, tuple(cand), baseline)):
                prefix, changed = cand, True
                break
    return {"kind": kind, "model": model, "prefix": prefix}


def replay(art):
    c = art["culprit"]
    st, baseline = run_in_child(execute, c["model"], ())
    fs = check_history(c["model"], tuple(tuple(p) for p in detuple(c["prefix"])), baseline)
    return [{"kind": k, "detail": d} for k, d in fs if k == c["kind"]]
