"""Explicit-state breadth-first exploration of operation histories on the real implementation.

A *driver* supplies

    ops(model)                 -> enabled operations in the model state (small finite menu, simplest first)
    run(history)               -> (canonical state key, model, violations of the LAST operation)

`run` rebuilds fresh real objects and replays the whole history (live Problems cannot be copied:
compiled closures capture the original Variable / Parameter objects); the oracle is evaluated on the
transition that executes the last operation.  Replaying a history twice must give the same state key
(checked on a sample of histories; a divergence is a harness error, never a violation).
"""

from __future__ import annotations

import collections


class Divergence(Exception):
    pass


def bfs(driver, roots, max_depth, rep, max_states=None, check_determinism_every=97):
    """Explore all histories reachable from `roots` (each a tuple of operations) up to max_depth.

    Deduplicates on the canonical state key.  Returns (states, transitions, fixpoint_reached).
    """
    seen = {}
    frontier = collections.deque()
    transitions = 0
    fix = True
    for r in roots:
        key, model, viol = driver.run(r)
        transitions += 1
        _record(rep, r, viol)
        if key not in seen:
            seen[key] = r
            frontier.append((r, model))
    while frontier:
        hist, model = frontier.popleft()
        if len(hist) >= max_depth:
            fix = False
            continue
        for op in driver.ops(model, hist):
            new = hist + (op,)
            key, m2, viol = driver.run(new)
            transitions += 1
            rep.max_depth = max(rep.max_depth, len(new))
            _record(rep, new, viol)
            if check_determinism_every and transitions % check_determinism_every == 0:
                key2, _, _ = driver.run(new)
                if key2 != key:
                    raise Divergence(f"replaying {new!r} gave two different states")
            if key not in seen:
                if max_states and len(seen) >= max_states:
                    fix = False
                    rep.caps.append(f"state cap {max_states} reached")
                    continue
                seen[key] = new
                frontier.append((new, m2))
    rep.states += len(seen)
    rep.transitions += transitions
    return len(seen), transitions, fix


def _record(rep, hist, viol):
    seen = set()
    for kind, d in viol:
        if kind in seen:
            continue
        seen.add(kind)
        rep.violation(kind, {"history": hist}, **d)


def minimise_history(hist, fails, always_keep=0):
    """Drop operations (ddmin by single removal) while `fails(history)` stays true."""
    hist = list(hist)
    changed = True
    while changed:
        changed = False
        for i in range(len(hist) - 1 - always_keep, -1, -1):
            cand = hist[:i] + hist[i + 1:]
            if not cand:
                continue
            try:
                if fails(tuple(cand)):
                    hist = cand
                    changed = True
                    break
            except Exception:
                continue
    return tuple(hist)
