#!/bin/sh
# Run every check of one tier against /repo, one after the other (each check uses all cores); prints one summary line
# per check and a final verdict.   selftest/run_all.sh [quick|thorough] [ids...]
cd "$(dirname "$0")/.." || exit 2
tier=${1:-quick}; shift 2>/dev/null
ids=${*:-C01 C02 C03 C04 C05 C06 C07 C08 C09 C10 C11 C12 C13 C14 C15 C16 C17 C18 C19 C20}
bad=0
for id in $ids; do
  out=$(./check "$id" --tier "$tier" 2>&1); rc=$?
  echo "$out" | grep -E "^$id tier=" | cut -c1-260
  echo "$out" | grep -E "^VIOLATION" | head -5
  [ $rc -ne 0 ] && { echo "$id EXIT $rc"; bad=1; }
done
[ $bad -eq 0 ] && echo "ALL-CLEAN tier=$tier seed=${VERIF_SEED:-0}"
exit $bad
