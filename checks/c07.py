"""C07  reported objective value and variable values are self-consistent; handles retrieve the right entries."""

from __future__ import annotations

from checks.common import Fails, Report, detuple, np
from checks import lpfamily as F, nlpfamily as N
from mc import problems as PR
from mc.interp import element_names
from mc.minimise import size

ID = "C07"
LEVEL = "model_checking"
RULE = (
    "states = (problem recipe, method) pairs: the LP family of C08 (all spellings, constants, both orientations), "
    "the nonlinear family of C06 x {auto, SLSQP, trust-constr, L-BFGS-B, Nelder-Mead, BFGS, linprog} and handle "
    "models (size-11 vector whose natural order differs from lexicographic order, 2x3 matrix, symmetric 3x3 "
    "matrix, scalars x10/x9 and b-before-a) solved with auto/SLSQP/L-BFGS-B; transitions = solves on the real "
    "code + handle look-ups; an evaluation = one comparison: objective_value vs the recipe's objective evaluated "
    "by the reference interpreter at the returned values (every status that returns values, user orientation; first solve, a repeat on the warm object, and a solve after flipping the sense with the same objective object), "
    "key set of Solution.values vs the recipe's variables, and each entry of Solution[handle] (scalar, vector, "
    "stepped / reversed slices, matrix, transpose, symmetric, row, column, diagonal, sub-matrix, by name, .get "
    "default) vs Solution.values[name].  Non-trivial = solve that returned values and an objective value."
)
ASSUMPTIONS = ["objective tolerance 1e-9*(1+|value|); reference interpreter mc/interp.py"]
NSH = 48

V11 = ("vvar", "x", 11)
M23 = ("mvar", "A", 2, 3, False)
S33 = ("mvar", "S", 3, 3, True)
T11 = ("arr", tuple(float(i) - 3.0 for i in range(11)))
TM = ("arr2", ((1.0, -2.0, 0.5), (3.0, 0.25, -1.0)))
TS = ("arr2", ((1.0, 2.0, -1.0), (2.0, 0.5, 3.0), (-1.0, 3.0, -2.0)))


def handle_models():
    d = ("vbin", "-", V11, T11)
    yield ("vec11", PR.prob("min", ("bin", "+", ("dot", d, d), ("c", 2.5)), (), ()),
           [V11, ("slice", V11, 2, 9, 3), ("slice", V11, None, None, -1), ("slice", V11, 9, None, None),
            ("slice", V11, -3, None, None), ("idx", V11, 10), ("idx", V11, -2)])
    yield ("vec11-lp", PR.prob("max", ("bin", "+", ("mm", T11, V11), ("c", 1.0)), (("cmp", "<=", ("sum", V11), ("c", 7)),),
                               (("x", (("lb", 0), ("ub", 2))),)),
           [V11, ("slice", V11, 1, 11, 2), ("slice", V11, None, None, -2)])
    dm = ("mbin", "-", M23, TM)
    yield ("mat23", PR.prob("min", ("msum", ("mbin", "*", dm, dm)), (), ()),
           [M23, ("T", M23), ("row", M23, 1, None, None, None), ("col", M23, None, None, None, 2),
            ("sub", M23, 0, 2, 1, 3), ("row", ("T", M23), 2, None, None, None), ("midx", M23, 1, 2),
            ("col", M23, None, None, None, -1), ("row", M23, -1, 1, None, None)])
    ds = ("mbin", "-", S33, TS)
    yield ("sym33", PR.prob("min", ("bin", "+", ("msum", ("mbin", "*", ds, ds)), ("c", -1.0)), (), ()),
           [S33, ("T", S33), ("diag", S33), ("row", S33, 2, None, None, None), ("col", S33, None, None, None, 0),
            ("sub", S33, 1, 3, 0, 2), ("midx", S33, 2, 0)])
    xa, xb = ("var", "x10"), ("var", "x9")
    yield ("x10x9", PR.prob("min", N.add(N.sq(N.sub(xa, N.c(10))), N.sq(N.sub(xb, N.c(9))), N.c(4)), (), ()),
           [xa, xb])
    b_, a_ = ("var", "b"), ("var", "a")
    yield ("b-before-a", PR.prob("max", ("un", "neg", N.add(N.sq(N.sub(b_, N.c(2))), N.sq(N.sub(a_, N.c(1))))),
                                 (("cmp", "<=", N.add(b_, a_), N.c(2)),), ()), [b_, a_])


def shards(tier, seed):
    return [("LP", i, 16) for i in range(16)] + [("NLP", i, 24) for i in range(24)] + [("H", i, 6) for i in range(6)]


class _SkipFlip(Exception):
    pass


# quick tier: the sense flip runs for the methods with their own code paths in optyx (the thorough tier flips for all)
FLIP_METHODS = ("auto", "SLSQP", "trust-constr", "L-BFGS-B", "linprog", "highs")


def check_solution(pr, method, handles=(), rep=None, want=None, extras=("repeat", "flip")):
    fails = Fails(want)
    try:
        P, b, built = PR.build_problem(pr)
    except Exception as ex:
        fails.add("exception:build:" + type(ex).__name__, msg=str(ex)[:200])
        return fails
    if rep:
        rep.states += 1
        rep.transitions += 1 + size(pr[2])
    try:
        sol = P.solve(**({} if method == "auto" else {"method": method}))
    except Exception as ex:
        if rep:
            rep.outcomes["raised:" + type(ex).__name__] += 1
        return fails
    if rep:
        rep.outcomes["status:" + sol.status.value] += 1
    if not sol.values or sol.objective_value is None:
        if rep:
            rep.skipped["no-values-or-objective"] += 1
        return fails
    names = PR.problem_var_names(pr)
    if rep:
        rep.nt((pr, method))
        rep.evaluations += 2
    if sorted(sol.values) != sorted(names) or len(sol.values) != len(names):
        fails.add("values-keys", got=sorted(sol.values), expected=names, method=method)
        return fails
    ref, ok = PR.eval_scalar(pr[2], sol.values)
    if ok and np.isfinite(sol.objective_value):
        if abs(sol.objective_value - ref) > 1e-9 * (1 + abs(ref)):
            fails.add("objective-value", got=sol.objective_value, expected=ref, status=sol.status.value, method=method,
                      values=sol.values)
    elif rep:
        rep.skipped["objective-not-finite-at-returned-point"] += 1
    # warm object: the same problem solved again (caches filled by the first solve)
    try:
        if "repeat" not in extras:
            raise _SkipFlip()
        sol2 = P.solve(**({} if method == "auto" else {"method": method}))
        if rep:
            rep.transitions += 1
        if sol2.values and sol2.objective_value is not None:
            ref2, ok2 = PR.eval_scalar(pr[2], sol2.values)
            if rep:
                rep.evaluations += 1
            if sorted(sol2.values) != sorted(names):
                fails.add("values-keys:repeat", got=sorted(sol2.values), expected=names, method=method)
            elif ok2 and np.isfinite(sol2.objective_value) and abs(sol2.objective_value - ref2) > 1e-9 * (1 + abs(ref2)):
                fails.add("objective-value:repeat", got=sol2.objective_value, expected=ref2, status=sol2.status.value,
                          method=method, values=sol2.values)
    except _SkipFlip:
        pass
    except Exception as ex:
        fails.add("exception:repeat-solve:" + type(ex).__name__, method=method, msg=str(ex)[:200])
    # the other orientation of the SAME objective object on the warm problem (smallest, then largest value of f)
    try:
        if (FLIP_METHODS is not None and method not in FLIP_METHODS) or "flip" not in extras:
            raise _SkipFlip()
        import warnings as _w

        with _w.catch_warnings():
            _w.simplefilter("ignore")
            (P.maximize if pr[1] == "min" else P.minimize)(P.objective)
            sol3 = P.solve(**({} if method == "auto" else {"method": method}))
        if rep:
            rep.transitions += 2
        if sol3.values and sol3.objective_value is not None and sorted(sol3.values) == sorted(names):
            ref3, ok3 = PR.eval_scalar(pr[2], sol3.values)
            if rep:
                rep.evaluations += 1
            if ok3 and np.isfinite(sol3.objective_value) and np.isfinite(ref3) and abs(sol3.objective_value - ref3) > 1e-9 * (1 + abs(ref3)):
                fails.add("objective-value:after-sense-flip", got=sol3.objective_value, expected=ref3, status=sol3.status.value,
                          method=method, values=sol3.values)
    except _SkipFlip:
        pass
    except Exception as ex:
        if rep:
            rep.outcomes["raised-after-sense-flip:" + type(ex).__name__] += 1
    for h in handles:
        obj = b.build(h)
        exp_names = element_names(h)
        exp = np.vectorize(lambda nm: sol.values[nm])(np.array(exp_names, dtype=object)).astype(float) \
            if not isinstance(exp_names, str) else sol.values[exp_names]
        try:
            got = sol[obj]
            got2 = sol.get(obj, None)
        except Exception as ex:
            fails.add("exception:handle:" + type(ex).__name__, handle=h, msg=str(ex)[:200])
            continue
        if rep:
            rep.transitions += 2
            rep.evaluations += int(np.size(exp))
        if isinstance(exp_names, str):
            if got != exp or got2 != exp or sol[exp_names] != exp:
                fails.add("handle-scalar", handle=h, got=got, expected=exp)
            continue
        if np.shape(got) != np.shape(exp) or not np.array_equal(np.asarray(got), exp) or not np.array_equal(np.asarray(got2), exp):
            fails.add("handle-array", handle=h, got=got, expected=exp)
    if handles:
        if sol.get("no-such-variable", 7.0) != 7.0:
            fails.add("get-default", got=sol.get("no-such-variable", 7.0))
    return fails


def explore(item, tier, seed):
    global FLIP_METHODS
    kind, i, n = item
    rep = Report()
    if tier == "thorough":
        FLIP_METHODS = None

    def record(fs, case):
        seen = set()
        for k, d in fs:
            if k not in seen:
                seen.add(k)
                rep.violation(k, case, **d)

    if kind == "LP":
        step = 1 if tier == "thorough" else 3
        import itertools as _it

        for idx, labs, pr, m in _it.chain(F.family("quick"), F.view_family()):
            if idx % step == 0 and (idx // step) % n == i:
                record(check_solution(pr, m, (), rep), {"family": "lp", "label": labs, "problem": pr, "method": m})
                if rep.states % 301 == 1:
                    rep.sample({"label": labs, "method": m})
    elif kind == "NLP":
        methods = ("auto", "SLSQP", "trust-constr", "L-BFGS-B", "Nelder-Mead", "BFGS", "linprog")
        for idx, lab, pr, m in N.family(tier, methods=methods):
            if idx % n == i:
                ex_ = ("repeat", "flip") if tier == "thorough" else (("repeat",) if (idx // 7) % 2 == 0 else ("flip",))
                record(check_solution(pr, m, (), rep, extras=ex_), {"family": "nlp", "label": lab, "problem": pr, "method": m, "extras": ex_})
                if rep.states % 301 == 1:
                    rep.sample({"label": lab, "method": m})
    else:
        for k, (lab, pr, handles) in enumerate(handle_models()):
            if k % n == i:
                for m in ("auto", "SLSQP", "L-BFGS-B", "trust-constr"):
                    record(check_solution(pr, m, handles, rep), {"family": "handles", "label": lab, "problem": pr,
                                                                 "method": m, "handles": handles})
                rep.sample({"label": lab, "handles": handles})
    return rep


def culprit(v):
    case = v["case"]
    lab = case["label"]
    if case["family"] == "lp":
        return {"kind": v["kind"], "family": "lp", "spelling": lab[:1], "sense": case["problem"][1]}
    return {"kind": v["kind"], "family": case["family"], "label": lab, "method": case["method"]}


def _extras_of(case):
    return tuple(case.get("extras") or ("repeat", "flip"))


def replay(art):
    case = art["violation"]["case"]
    fs = check_solution(detuple(case["problem"]), case["method"], detuple(case.get("handles", [])), None,
                        want=art["culprit"]["kind"])
    return [{"kind": k, "detail": d} for k, d in fs]
