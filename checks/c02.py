"""C02  symbolic gradient == true partial derivative (every recipe, every variable, every regular point)."""

from __future__ import annotations

from mc.callers import LiveMapping  # noqa: E402

from checks.common import *  # noqa: F401,F403
from checks.common import Case, Fails, close, REL_D, size, FOREIGN, np

ID = "C02"
LEVEL = "model_checking"
RULE = (
    "states = scalar recipes of the complete layers A (depth<=2, 24 operators), B (<=N nodes over + - * / ** neg "
    "with leaves 0, 1, 2, -1, 0.5: every algebraic simplifier fires), C (unary chains <=3) and D (every vector/"
    "matrix reduction kind in every depth<=1 context); transitions = API calls on the real code (builder "
    "operations and gradient() requests: each variable occurring, one non-occurring, each twice - memo hit - and "
    "once through the iterative algorithm, and the formula rebuilt as a DAG of shared sub-expression objects through the memoised and the iterative algorithm); an evaluation = gradient(e,v).evaluate(p) compared with the "
    "hand-written second-order jet interpreter at a regular grid point.  Non-trivial = recipe with >=1 variable "
    "and >=1 regular point; distinct by canonical recipe."
)
ASSUMPTIONS = [
    "reference jets mc/alg.py (calculus rules written independently of optyx.core.autodiff)",
    "regularity decided by the reference, elementary operation by elementary operation; non-regular points are skipped and counted",
]


def shards(tier, seed):
    return layer_items()


def check_recipe(r, tier, seed, rep=None, want=None):
    from optyx.core import autodiff

    fails = Fails(want)
    c = Case(r, tier, seed)
    if c.skip:
        if rep:
            rep.skipped[c.skip] += 1
        return fails
    wrt = c.names + [FOREIGN]
    try:
        v, g, H, ok, reg, ev, eg, eH = c.jets(wrt)
    except Exception as ex:
        if rep:
            rep.skipped["no_denotation:" + type(ex).__name__] += 1
        return fails
    m = ok & reg
    if rep:
        rep.states += 1
        rep.transitions += size(r)
        rep.skipped["non_regular_or_out_of_domain_points"] += int((~m).sum())
        if not m.any():
            rep.skipped["no_regular_point"] += 1
        elif c.names:
            rep.nt(r)
    V = c.b.variables_for(wrt)
    idx = np.flatnonzero(m)
    okidx = np.flatnonzero(ok)
    # non-initial memo: the formula as a DAG of shared objects whose sub-expressions were differentiated first
    dag = None
    if size(r) > 1:
        try:
            from mc.build import Builder
            from mc.interp import walk, kind_of
            from optyx.core.expressions import Expression

            bs = Builder(params=c.params, share_scalars=True)
            root = bs.build(r)
            Vd = bs.variables_for(wrt)
            for sub in sorted({s_ for s_ in walk(r) if kind_of(s_) == "s" and s_ != r}, key=lambda t: (size(t), repr(t))):
                o = bs.build(sub)
                if isinstance(o, Expression):
                    for var in Vd:
                        autodiff.gradient(o, var)
            if isinstance(root, Expression):
                dag = (root, Vd)
        except Exception as ex:
            fails.add("exception:gradient:dag-bottom-up:" + type(ex).__name__, msg=str(ex)[:200])
    # factory style: every mention of a variable is a new Variable object of that name, and so is `wrt`
    dup = None
    if c.names:
        try:
            from mc.build import Builder as _B

            bd = _B(params=c.params, duplicate_variables=True)
            dup = (bd.build(r), bd.variables_for(wrt))
        except Exception as ex:
            fails.add("exception:build:duplicate-variable-objects:" + type(ex).__name__, msg=str(ex)[:200])
    for path in ("recursive", "memo", "iterative", "dag-bottom-up", "dag-iterative", "dupvars-recursive", "dupvars-iterative"):
        if path.startswith("dag-") and dag is None:
            continue
        if path.startswith("dupvars-") and dup is None:
            continue
        for i, var in enumerate(V):
            try:
                if path == "iterative":
                    with threshold(0, autodiff):
                        ge = autodiff.gradient(c.e, var)
                elif path == "dag-bottom-up":
                    ge = autodiff.gradient(dag[0], dag[1][i])
                elif path == "dupvars-recursive":
                    ge = autodiff.gradient(dup[0], dup[1][i])
                elif path == "dupvars-iterative":
                    ge = autodiff._gradient_iterative(dup[0], dup[1][i])
                elif path == "dag-iterative":
                    # the explicit-stack algorithm on a DAG: interior nodes shared by several parents
                    ge = autodiff._gradient_iterative(dag[0], dag[1][i])
                else:
                    ge = autodiff.gradient(c.e, var)
            except Exception as ex:
                fails.add(f"exception:gradient:{path}:" + type(ex).__name__, wrt=var.name, msg=str(ex)[:200])
                continue
            if rep:
                rep.transitions += 1
                rep.outcomes[f"{path}:derivative-is-{type(ge).__name__}"] += 1
            foreign = var.name == FOREIGN
            ev_ = LiveMapping(ge.evaluate)
            for k in (okidx if foreign else idx):
                pd = c.point(k)
                pd.setdefault(FOREIGN, 0.125)
                if rep:
                    rep.evaluations += 1
                try:
                    got = float(np.asarray(ev_(pd)).reshape(-1)[0])
                except Exception as ex:
                    fails.add(f"exception:evaluate-gradient:{path}:" + type(ex).__name__, wrt=var.name, point=pd,
                              msg=str(ex)[:200])
                    break
                if foreign:
                    if got != 0.0:
                        fails.add(f"nonzero-for-absent-variable:{path}", wrt=var.name, point=pd, got=got)
                        break
                elif not close(got, g[i][k], eg[i][k], REL_D):
                    fails.add(f"gradient-mismatch:{path}", wrt=var.name, point=pd, got=got, expected=float(g[i][k]))
                    break
    return fails


def check_param_phase(r, tier, seed, rep=None, want=None):
    """Recipes with a Parameter: the gradient expression is built while the parameter holds 1.0 / 0.0 (the values
    around which simplifications fire), then the parameter is updated and the SAME gradient object is evaluated."""
    from optyx.core import autodiff
    from checks.common import Case as _Case
    import checks.common as CC

    fails = Fails(want)
    for p0, p1 in ((1.0, 2.5), (0.0, 1.5), (2.0, 1.0)):
        old = CC.PVAL
        CC.PVAL = p0
        try:
            c = _Case(r, tier, seed)
        finally:
            CC.PVAL = old
        if c.skip or not c.pnames:
            return fails
        wrt = c.names + [FOREIGN]
        V = c.b.variables_for(wrt)
        try:
            ges = [autodiff.gradient(c.e, var) for var in V]
        except Exception as ex:
            fails.add("exception:gradient:param-phase:" + type(ex).__name__, msg=str(ex)[:200], p0=p0)
            continue
        for pn in c.pnames:
            c.b.parameter(pn).set(p1)
        c.params = {pn: p1 for pn in c.pnames}
        try:
            v, g, H, ok, reg, ev, eg, eH = c.jets(wrt)
        except Exception:
            continue
        for k in np.flatnonzero(ok & reg):
            pd = c.point(k)
            pd.setdefault(FOREIGN, 0.125)
            bad = False
            for i, ge in enumerate(ges[:-1]):
                if rep:
                    rep.evaluations += 1
                try:
                    got = float(np.asarray(ge.evaluate(pd)).reshape(-1)[0])
                except Exception as ex:
                    fails.add("exception:evaluate-gradient:param-phase:" + type(ex).__name__, msg=str(ex)[:200])
                    bad = True
                    break
                if not close(got, g[i][k], eg[i][k], REL_D):
                    fails.add("gradient-ignores-parameter-update", wrt=wrt[i], built_at=p0, now=p1, point=pd, got=got,
                              expected=float(g[i][k]))
                    bad = True
                    break
            if bad:
                break
        if rep:
            rep.transitions += len(V) + len(c.pnames)
    return fails


def check_both(r, tier, seed, rep=None, want=None):
    fs = check_recipe(r, tier, seed, rep, want)
    if size(r) <= 6:
        fs2 = check_param_phase(r, tier, seed, rep, want)
        for k, d in fs2:
            fs.append((k, d))
    return fs


def explore(item, tier, seed):
    return std_explore(check_both, item, tier, seed, layer_recipes(item, tier))


culprit = std_culprit(check_both)
replay = std_replay(check_both)
