"""C10  constraints mean the relation the user wrote, also inside the solver (all operand kinds / shapes)."""

from __future__ import annotations

import itertools

from checks.common import Fails, Report, detuple, np
from mc import capture as CAP
from mc import problems as PR
from mc.build import Builder
from mc.interp import ShapeError, var_names, param_names, natural_key
from mc.minimise import size
from mc.oracle import ref_value
from mc.seams import Seam, result

ID = "C10"
LEVEL = "model_checking"
RULE = (
    "states = constraint recipes (lhs kind, sense, rhs kind): the full product of operand kinds {Python int, float, "
    "bool, np.float64, np.int64, 0-d array, Constant, Variable, scalar expressions, Parameter, vector reductions; "
    "list, 1-D array, VectorVariable, views, VectorExpressions, A@v; 2-D array, nested list, MatrixVariable, "
    "transposes, MatrixExpressions} on both sides (at least one optyx operand, mismatched shapes included) x "
    "{<=, >=, ==} written with the Python comparison of the operands in the given order (reflected comparisons "
    "arise when the left operand is not an optyx object).  transitions = API calls on the real code (builder ops, "
    "the comparison, and one solve with method SLSQP and trust-constr whose back-end call is captured); "
    "evaluations = Constraint.evaluate / violation / is_satisfied per element and grid point (boundary points "
    "included) vs the reference relation, number and order of constraints vs elements, and the captured SciPy "
    "dict (type, sign of fun on / off the satisfied set, jac = derivative of fun).  Constructions rejected with an "
    "exception are counted, never alarmed on; shape-mismatched operands must be rejected.  Non-trivial = "
    "constraint that was built; distinct by recipe."
)
ASSUMPTIONS = ["reference relation: elementwise lhs-rhs in NumPy semantics (mc/interp.py); tolerance 1e-9"]

X, Y = ("var", "x"), ("var", "y")
V3, W3 = ("vvar", "v", 3), ("vvar", "w", 3)
V4 = ("vvar", "u", 4)
M22, N22 = ("mvar", "M", 2, 2, False), ("mvar", "N", 2, 2, False)
M23 = ("mvar", "B", 2, 3, False)
S22 = ("mvar", "S", 2, 2, True)
A23 = ("arr2", ((1.0, 0.0, -1.0), (0.5, 2.0, 0.0)))

SCALARS_PLAIN = [("c", 2), ("c", 0.75), ("k", 1, "bool"), ("k", 0.75, "np64"), ("k", 2, "npi"), ("k", -0.5, "a0")]
SCALARS_OPTYX = [("C", 0.75), X, ("bin", "+", X, Y), ("bin", "*", ("c", 2), X), ("un", "sin", X), ("par", "p"),
                 # variable-free arithmetic over a Parameter, and a Parameter multiplying a variable
                 ("bin", "*", ("c", 3), ("par", "p")), ("un", "neg", ("par", "p")), ("bin", "+", ("par", "p"), ("c", 1)),
                 ("bin", "*", ("par", "p"), X),
                 # several variables whose natural order differs from their lexicographic order, different partials
                 ("mm", ("arr", (1.0, 3.0, -2.0)), ("slice", ("vvar", "q", 11), 2, None, 4)),
                 ("bin", "+", ("bin", "*", ("c", 3), ("idx", ("vvar", "q", 11), 2)), ("idx", ("vvar", "q", 11), 10)),
                 ("sum", V3), ("dot", V3, W3), ("bin", "-", ("bin", "**", X, ("c", 2)), Y), ("idx", V3, 1)]
VECTORS_PLAIN = [("lst", (0.75, 2.0, -0.5)), ("arr", (0.75, 2.0, -0.5)), ("arr", (1.0, 2.0)), ("lst", (1.0, 2.0, 3.0, 4.0)),
                 ("arr", (0.75, 2.0, -0.5), "strided"), ("arr", (0.75, 2.0, -0.5), "reversed-view"), ("arr", (2, 0, -1), "int"),
                 # "no bound here" entries: +-inf inside the data (x <= [1, inf, 3] bounds x[0] and x[2] only)
                 ("arr", (1.0, float("inf"), 3.0)), ("lst", (float("-inf"), 0.5, float("-inf")))]
VECTORS_OPTYX = [V3, W3, ("slice", V4, 1, 4, None), ("slice", ("vvar", "q", 11), 2, None, 4),   # q[2], q[6], q[10]: natural != lexicographic order ("slice", V3, None, None, -1), ("vbin", "+", V3, ("c", 1)),
                 ("vbin", "*", V3, W3), ("rvbin", "-", ("c", 2), V3), ("mv", A23, V3), V4,
                 ("vneg", V3), ("row", M23, 0, None, None, None), ("vbin", "**", ("vbin", "+", V3, ("c", 0)), ("c", 2))]
MATRICES_PLAIN = [("arr2", ((0.75, 2.0), (-0.5, 0.25))), ("lst2", ((0.75, 2.0), (-0.5, 0.25))),
                  ("arr2", ((1.0, 2.0, 3.0), (4.0, 5.0, 6.0))),
                  # the same data in other NumPy memory layouts
                  ("arr2", ((0.75, 2.0), (-0.5, 0.25)), "F"), ("arr2", ((0.75, 2.0, -1.5), (-0.5, 0.25, 2.0)), "T"),
                  ("arr2", ((0.75, 2.0, -1.5), (-0.5, 0.25, 2.0)), "F"), ("arr2", ((0.75, 2.0), (-0.5, 0.25)), "strided")]
MATRICES_OPTYX = [M22, N22, ("T", M22), ("mbin", "+", M22, ("c", 1)), ("mbin", "*", M22, N22), S22, M23,
                  ("T", M23), ("mneg", M22), ("sub", M23, 0, 2, 1, 3)]
# vector-valued nodes that are scalar `Expression` subclasses (ElementwisePower / ElementwiseUnary)
VECTORLIKE = [("vpow", V3, 2), ("vun", "sin", V3)]

PLAIN = SCALARS_PLAIN + VECTORS_PLAIN + MATRICES_PLAIN
OPTYX = SCALARS_OPTYX + VECTORS_OPTYX + MATRICES_OPTYX + VECTORLIKE


def all_cases():
    idx = 0
    for l, r in itertools.product(OPTYX + PLAIN, OPTYX + PLAIN):
        if l in PLAIN and r in PLAIN:
            continue
        for sense in ("<=", ">=", "=="):
            yield idx, ("cmp", sense, l, r)
            idx += 1


NSH = 32


def shards(tier, seed):
    return [(i, NSH) for i in range(NSH)]


def grid_for(names):
    g = (-1.5, -0.5, 0.25, 0.75, 2.0)
    P = 10
    pts = {}
    for j, nm in enumerate(names):
        pts[nm] = np.array([g[(j + (1 + j % 4) * k + k // 5) % 5] for k in range(P)])
    return pts, P


def check_constraint(c, rep=None, want=None, capture=True):
    from optyx import Problem
    from optyx.constraints import Constraint

    fails = Fails(want)
    _, sense, l, r = c
    params = {p: 0.75 for p in set(param_names(l)) | set(param_names(r))}
    expect_reject = False
    try:
        s_ref, diffs = PR.constraint_elements(c)
    except ShapeError:
        expect_reject, diffs = True, []
    b = Builder(params=params)
    if rep:
        rep.states += 1
        rep.transitions += size(l) + size(r) + 1
    try:
        built = PR.build_constraint(b, c)
    except Exception as ex:
        if rep:
            rep.outcomes["rejected:" + type(ex).__name__] += 1
            rep.skipped["rejected_at_build"] += 1
        return fails
    cons = built if isinstance(built, list) else [built]
    if not cons or not all(isinstance(k, Constraint) for k in cons):
        if rep:
            rep.outcomes["rejected:comparison-returned-" + type(built).__name__] += 1
            rep.skipped["comparison_did_not_return_constraints"] += 1
        # such an object cannot enter a problem: subject_to must refuse it
        try:
            Problem().subject_to(built)
            if not isinstance(built, list) or built:
                fails.add("non-constraint-accepted-by-subject_to", got=type(built).__name__)
        except Exception:
            pass
        return fails
    if expect_reject:
        fails.add("shape-mismatch-accepted", n_constraints=len(cons))
        return fails
    if rep:
        rep.nt(c)
        rep.outcomes["built:%d" % len(cons)] += 1
    if len(cons) != len(diffs):
        fails.add("constraint-count", got=len(cons), expected=len(diffs))
        return fails
    names = sorted(set(var_names(l)) | set(var_names(r)), key=natural_key)
    pts, P = grid_for(names)
    # phase 1: parameters as at build time; phase 2: every Parameter .set() to another value AFTER the constraint was written
    for phase, pval in (("built", 0.75), ("after-set", 2.0)) if params else (("built", 0.75),):
        if phase == "after-set":
            for pn in params:
                b.parameter(pn).set(pval)
            params = {pn: pval for pn in params}
            if rep:
                rep.transitions += len(params)
        sfx = "" if phase == "built" else ":after-parameter-set"
        for k, (cn, d) in enumerate(zip(cons, diffs)):
            vals, ok, err = ref_value(d, pts, P, params)
            for i in np.flatnonzero(ok):
                pd = {nm: float(pts[nm][i]) for nm in names}
                dv = float(vals[i])
                exp_v = PR.violation_ref(sense, dv)
                if rep:
                    rep.evaluations += 2
                try:
                    got_v = cn.violation(pd)
                    got_s = cn.is_satisfied(pd)
                except Exception as ex:
                    fails.add("built-but-unevaluable:" + type(ex).__name__ + sfx, element=k, point=pd, msg=str(ex)[:200])
                    break
                if abs(got_v - exp_v) > 1e-9 * max(1, abs(exp_v)) + err[i]:
                    fails.add("violation-amount" + sfx, element=k, point=pd, got=got_v, expected=exp_v, sense=sense)
                    break
                if abs(exp_v - 1e-8) > 1e-10 + err[i] and got_s != (exp_v <= 1e-8):
                    fails.add("is_satisfied" + sfx, element=k, point=pd, got=got_s, violation=exp_v)
                    break
    params = {pn: 0.75 for pn in params}
    if fails or not capture or not names:
        return fails
    # inside the solver: capture what reaches scipy for SLSQP and trust-constr (scripted answer, no real solve)
    obj = ("c", 0.0)
    # the problem has two more variables than the constraint mentions (one sorting first, one last): every
    # constraint row covers a strict subset of the columns
    names = sorted(names + ["A0", "zz"], key=natural_key)
    for nm in names:
        obj = ("bin", "+", obj, ("bin", "**", ("var", nm), ("c", 2)))
    pr = PR.prob("min", obj, (c,), (), tuple(params.items()))
    for method in ("SLSQP", "trust-constr"):
        try:
            P_, b2, _ = PR.build_problem(pr)
            n = len(names)
            with Seam(script=[lambda call: result(np.zeros(n), fun=0.0)] * 2, passthrough=False) as s:
                P_.solve(method=method)
        except Exception as ex:
            fails.add("exception:solve:" + type(ex).__name__, method=method, msg=str(ex)[:200])
            continue
        if rep:
            rep.transitions += 1
        if [v.name for v in P_.variables] != names:
            fails.add("variable-order", got=[v.name for v in P_.variables], expected=names)
            continue
        CAP.check_constraints(s.calls[0].kw, pr, names, fails, rep, params)
        if params and not fails:
            # the same problem object after Parameter.set(): what reaches the back-end follows the new value
            try:
                for pn in params:
                    b2.parameter(pn).set(2.0)
                with Seam(script=[lambda call: result(np.zeros(n), fun=0.0)] * 2, passthrough=False) as s2:
                    P_.solve(method=method)
                before = len(fails)
                CAP.check_constraints(s2.calls[0].kw, pr, names, fails, rep, {pn: 2.0 for pn in params})
                for j in range(before, len(fails)):
                    fails[j] = (fails[j][0] + ":after-parameter-set", fails[j][1])
            except Exception as ex:
                fails.add("exception:solve-after-parameter-set:" + type(ex).__name__, method=method, msg=str(ex)[:200])
        if not fails:
            # the same constraint BETWEEN companions of other senses (A0 <= 5 written before it, zz >= -5 after it, and
            # the reverse order): what is handed over for each row depends on that row alone
            for order in ("le-first", "ge-first"):
                le, ge = ("cmp", "<=", ("var", "A0"), ("c", 5.0)), ("cmp", ">=", ("var", "zz"), ("c", -5.0))
                cs3 = (le, c, ge) if order == "le-first" else (ge, c, le)
                pr3 = PR.prob("min", obj, cs3, (), tuple(params.items()))
                try:
                    P3, _, _ = PR.build_problem(pr3)
                    with Seam(script=[lambda call: result(np.zeros(n), fun=0.0)] * 2, passthrough=False) as s4:
                        P3.solve(method=method)
                    before = len(fails)
                    CAP.check_constraints(s4.calls[0].kw, pr3, names, fails, rep, params)
                    for j in range(before, len(fails)):
                        fails[j] = (fails[j][0] + ":between-companions", dict(fails[j][1], order=order))
                    if rep:
                        rep.transitions += 1
                except Exception as ex:
                    fails.add("exception:solve-with-companions:" + type(ex).__name__, method=method, order=order, msg=str(ex)[:200])
        if not params and not fails:
            # the objective of the solved problem is REPLACED by one over another variable set of the same size (A0
            # leaves, zzz joins: every constraint column shifts by one): the relation handed over is still the user's
            try:
                names2 = sorted([nm for nm in names if nm != "A0"] + ["zzz"], key=natural_key)
                obj2 = ("c", 1.0)
                for nm in names2:
                    obj2 = ("bin", "+", obj2, ("bin", "**", ("bin", "-", ("var", nm), ("c", 0.5)), ("c", 2)))
                pr2 = PR.prob("min", obj2, (c,), (), ())
                P_.minimize(b2.build(obj2))
                with Seam(script=[lambda call: result(np.zeros(n), fun=0.0)] * 2, passthrough=False) as s3:
                    P_.solve(method=method)
                if [v.name for v in P_.variables] != names2:
                    fails.add("variable-order:after-objective-replacement", got=[v.name for v in P_.variables], expected=names2)
                else:
                    before = len(fails)
                    CAP.check_constraints(s3.calls[0].kw, pr2, names2, fails, rep, params)
                    for j in range(before, len(fails)):
                        fails[j] = (fails[j][0] + ":after-objective-replacement", fails[j][1])
                if rep:
                    rep.transitions += 2
            except Exception as ex:
                fails.add("exception:solve-after-objective-replacement:" + type(ex).__name__, method=method, msg=str(ex)[:200])
    return fails


def explore(item, tier, seed):
    i, n = item
    rep = Report()
    for idx, c in all_cases():
        if idx % n != i:
            continue
        fs = check_constraint(c, rep)
        seen = set()
        for k, d in fs:
            if k not in seen:
                seen.add(k)
                rep.violation(k, {"constraint": c}, **d)
        if rep.states % 199 == 1:
            rep.sample({"constraint": c})
    return rep


def operand_class(r):
    """Coarse class of an operand recipe (the identification used for known findings)."""
    if r in VECTORLIKE or r[0] in ("vpow", "vun") and r[-1][0] == "vvar" or (r[0] == "vpow" and r[1][0] == "vvar"):
        return "elementwise-node(v**k | f(v))"
    if r in SCALARS_PLAIN:
        return "plain-scalar"
    if r in SCALARS_OPTYX:
        return "scalar-expression"
    if r in VECTORS_PLAIN:
        return "plain-vector"
    if r in VECTORS_OPTYX:
        return "vector"
    if r in MATRICES_PLAIN:
        return "plain-matrix"
    return "matrix"


def culprit(v):
    c = detuple(v["case"]["constraint"])
    return {"kind": v["kind"], "lhs": operand_class(c[2]), "rhs": operand_class(c[3])}


def replay(art):
    c = detuple(art["violation"]["case"]["constraint"])
    fs = check_constraint(c, None, want=art["culprit"]["kind"])
    return [{"kind": k, "detail": d} for k, d in fs]
