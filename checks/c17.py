"""C17  symbolic and compiled Hessians == true symmetric second derivatives."""

from __future__ import annotations

from checks.common import *  # noqa: F401,F403
from checks.common import Case, Fails, close, REL_D, size, FOREIGN, np, natural_key
from mc import layers as L

ID = "C17"
LEVEL = "model_checking"
RULE = (
    "states = scalar recipes of layers A (depth<=2), B (<=N nodes), C, D plus the diagonal fast-path family "
    "(v**k).sum(), f(v).sum() with V full / permuted / superset / interleaved; transitions = API calls on the "
    "real code (builder ops, compute_hessian, compile_hessian per variable list); an evaluation = one Hessian "
    "entry (symbolic entry evaluated, or compiled matrix entry) compared with the second-order jet reference "
    "at a twice-regular grid point, plus the symmetry test H == H^T; recipes holding a Parameter are additionally built at p in {1, 0, 2}, the parameter is then set to another value and the same symbolic / compiled Hessian objects are re-evaluated.  Non-trivial = recipe with >=1 variable "
    "and >=1 regular point; distinct by canonical recipe."
)
ASSUMPTIONS = [
    "reference jets mc/alg.py; points where any elementary operation is not twice differentiable are skipped and counted",
]

V3 = L.V3
FAST = (
    [("sum", ("vpow", V3, k)) for k in (1, 2, 3, 4, 0.5, -1, 1.5)]
    + [("sum", ("vun", f, V3)) for f in L.VUN]
    + [("sum", ("vpow", ("slice", V3, None, None, -1), 3)), ("sum", ("vun", "exp", ("slice", V3, 0, 2, None)))]
)


def shards(tier, seed):
    return layer_items() + [("F", 0, 1), ("NP", 0, 2), ("NP", 1, 2)]


def recipes(item, tier):
    if item[0] == "F":
        out = []
        for r in FAST:
            out.append(r)
            out.append(("bin", "+", r, ("bin", "*", ("c", 0), ("var", "x"))))   # defeats the fast path
            out.append(("bin", "*", ("c", 3), r))
            out.append(("bin", "+", r, ("bin", "**", ("var", "x"), ("c", 2))))
        return out
    if item[0] == "NP":
        from mc.layers import nested_powers

        return nested_powers()[item[1]::item[2]]
    return layer_recipes(item, tier, A_leaves=(4, 4), B_nodes=(5, 5))


def v_menu(names, tier, fast):
    nat = sorted(names, key=natural_key)
    menu = [("superset-end", nat + [FOREIGN])]
    if len(nat) > 1:
        menu.append(("reversed", nat[::-1]))
    if fast or tier == "thorough":
        menu.append(("natural", nat))
        menu.append(("foreign-first", [FOREIGN] + nat))
        if len(nat) > 2:
            menu.append(("interleaved", nat[:1] + [FOREIGN] + nat[1:][::-1]))
            menu.append(("rotated", nat[1:] + nat[:1]))
    return menu


def check_recipe(r, tier, seed, rep=None, want=None):
    from optyx.core import autodiff

    fails = Fails(want)
    c = Case(r, tier, seed)
    if c.skip:
        if rep:
            rep.skipped[c.skip] += 1
        return fails
    fast = r[0] == "sum" and r[1][0] in ("vpow", "vun")
    wrt_all = c.names + [FOREIGN]
    try:
        v, g, H, ok, reg, ev, eg, eH = c.jets(wrt_all)
    except Exception as ex:
        if rep:
            rep.skipped["no_denotation:" + type(ex).__name__] += 1
        return fails
    m = ok & reg
    idx = np.flatnonzero(m)
    if rep:
        rep.states += 1
        rep.transitions += size(r)
        rep.skipped["non_regular_or_out_of_domain_points"] += int((~m).sum())
        if m.any() and c.names:
            rep.nt(r)
    if not m.any():
        if rep:
            rep.skipped["no_regular_point"] += 1
        return fails
    pos = {n: i for i, n in enumerate(wrt_all)}
    for vi, (vlab, vn) in enumerate(v_menu(c.names, tier, fast)):
        V = c.b.variables_for(vn)
        perm = [pos[n] for n in vn]
        n = len(vn)
        if vi == 0:
            try:
                Hs = autodiff.compute_hessian(c.e, V)
                if rep:
                    rep.transitions += 1
            except Exception as ex:
                fails.add("exception:compute_hessian:" + type(ex).__name__, V=vlab, msg=str(ex)[:200])
                Hs = None
            if Hs is not None:
                for k in idx[:4]:
                    pd = c.point(k)
                    pd.setdefault(FOREIGN, 0.125)
                    bad = False
                    for i in range(n):
                        for j in range(n):
                            if rep:
                                rep.evaluations += 1
                            try:
                                got = float(np.asarray(Hs[i][j].evaluate(pd)).reshape(-1)[0])
                            except Exception as ex:
                                fails.add("exception:evaluate-hessian-entry:" + type(ex).__name__, V=vlab, i=i, j=j,
                                          point=pd, msg=str(ex)[:200])
                                bad = True
                                break
                            exp = H[perm[i], perm[j], k]
                            if not close(got, exp, eH[perm[i], perm[j], k], REL_D):
                                fails.add("symbolic-hessian-mismatch", V=vlab, i=i, j=j, point=pd, got=got,
                                          expected=float(exp))
                                bad = True
                                break
                        if bad:
                            break
                    if bad:
                        break
        try:
            hf = autodiff.compile_hessian(c.e, V)
            hname = hf.__name__
            from mc.callers import typed_point_mismatch

            tm = typed_point_mismatch(hf, len(vn))
            if tm is not None:
                fails.add("point-dtype-leaks-into-hessian:" + hname, V=vlab, **tm)
            hf = InPlace(hf)
            if rep:
                rep.transitions += 1
                rep.outcomes["path:" + hname] += 1
        except Exception as ex:
            fails.add("exception:compile_hessian:" + type(ex).__name__, V=vlab, msg=str(ex)[:200])
            continue
        for k in idx:
            x = c.x_of(vn, k)
            try:
                got = np.asarray(hf(x), dtype=float)
            except Exception as ex:
                fails.add("exception:call-hessian:" + type(ex).__name__, V=vlab, x=x, msg=str(ex)[:200])
                break
            if rep:
                rep.evaluations += n * n
            if got.shape != (n, n):
                fails.add("hessian-shape", V=vlab, shape=got.shape)
                break
            exp = H[np.ix_(perm, perm)][:, :, k]
            err = eH[np.ix_(perm, perm)][:, :, k]
            if not np.array_equal(got, got.T):
                fails.add("hessian-not-symmetric", V=vlab, x=x, got=got)
                break
            if not close(got, exp, err, REL_D).all():
                fails.add("compiled-hessian-mismatch:" + hname, V=vlab, order=vn, x=x, got=got, expected=exp)
                break
    return fails


def check_param_phase(r, tier, seed, rep=None, want=None):
    """Recipes with a Parameter: the Hessian (symbolic and compiled) is built while the parameter holds p0 (1, 0 and 2:
    the values around which simplifications and constant folding fire), the parameter is then updated and the SAME
    objects are evaluated: they must give the second derivatives at the parameter's current value."""
    from optyx.core import autodiff
    import checks.common as CC

    fails = Fails(want)
    for p0, p1 in ((1.0, 2.5), (0.0, 1.5), (2.0, 1.0)):
        old = CC.PVAL
        CC.PVAL = p0
        try:
            c = Case(r, tier, seed)
        finally:
            CC.PVAL = old
        if c.skip or not c.pnames or not c.names:
            return fails
        vn = sorted(c.names, key=natural_key)
        if p0 == 0.0:
            vn = vn[::-1]
        V = c.b.variables_for(vn)
        try:
            Hs = autodiff.compute_hessian(c.e, V)
            hf = autodiff.compile_hessian(c.e, V)
        except Exception as ex:
            fails.add("exception:hessian:param-phase:" + type(ex).__name__, msg=str(ex)[:200], built_at=p0)
            continue
        for pn in c.pnames:
            c.b.parameter(pn).set(p1)
        c.params = {pn: p1 for pn in c.pnames}
        try:
            v, g, H, ok, reg, ev, eg, eH = c.jets(vn)
        except Exception:
            continue
        n = len(vn)
        if rep:
            rep.transitions += 2 + len(c.pnames)
        for k in np.flatnonzero(ok & reg)[:3]:
            x = c.x_of(vn, k)
            pd = c.point(k)
            try:
                got = np.asarray(hf(x), dtype=float)
                sym = np.array([[float(np.asarray(Hs[i][j].evaluate(pd)).reshape(-1)[0]) for j in range(n)] for i in range(n)])
            except Exception as ex:
                fails.add("exception:hessian:param-phase:" + type(ex).__name__, msg=str(ex)[:200], built_at=p0, now=p1)
                break
            if rep:
                rep.evaluations += 2 * n * n
            if not close(got, H[:, :, k], eH[:, :, k], REL_D).all():
                fails.add("compiled-hessian-ignores-parameter-update", order=vn, built_at=p0, now=p1, x=x, got=got, expected=H[:, :, k])
                break
            if not close(sym, H[:, :, k], eH[:, :, k], REL_D).all():
                fails.add("symbolic-hessian-ignores-parameter-update", order=vn, built_at=p0, now=p1, x=x, got=sym, expected=H[:, :, k])
                break
    return fails


def check_both(r, tier, seed, rep=None, want=None):
    fs = check_recipe(r, tier, seed, rep, want)
    if size(r) <= 7:
        for k, d in check_param_phase(r, tier, seed, rep, want):
            fs.append((k, d))
    return fs


def explore(item, tier, seed):
    return std_explore(check_both, item, tier, seed, recipes(item, tier))


culprit = std_culprit(check_both)
replay = std_replay(check_both)
