"""C04  degree / linearity classification never under-reports (both traversals, every entry point)."""

from __future__ import annotations

from mc.callers import clear_lru  # noqa: E402

from math import comb

from checks.common import *  # noqa: F401,F403
from checks.common import Fails, np, natural_key, size
from mc import layers as L
from mc.build import Builder
from mc.interp import var_names, param_names
from mc.oracle import ref_poly, ref_value

ID = "C04"
LEVEL = "model_checking"
RULE = (
    "states = scalar recipes of layers A (depth<=2), B (<=N nodes), D (vector/matrix reductions in depth<=1 "
    "contexts), F (numpy spellings of constants: numpy scalars, 0-d and multi-element array constants as exponent, factor, divisor, addend - an array constant makes the expression array-valued and its degree is the largest component degree) and E (vector nodes holding non-polynomial or higher-degree elements, vector powers "
    "k in {0,1,2,3,0.5,-1,2.5}, constant sub-expressions, parameters); each recipe is rebuilt fresh and "
    "classified by the recursive and by the iterative traversal through e.degree, compute_degree, is_linear, "
    "is_quadratic, Expression.is_linear, Problem._is_linear_problem and Problem._auto_select_method, and once more "
    "after every sub-expression object has been classified bottom-up on shared objects (non-initial degree caches), "
    "and in six query orders on ONE object (also: variables collected first) (threshold questions before the exact degree) "
    "(transitions = those API calls + builder ops); recipes holding a Parameter are also classified at p in {2, 1, 0}, "
    "the parameter is then set to another value and the same objects classified again.  Oracle: exact polynomial over Fractions (mc/alg.py PolyAlg); "
    "a reported degree d needs an exact polynomial of total degree <= d, and every alarm carries a witness (an "
    "exact higher-degree monomial, or a non-vanishing (d+1)-th finite difference along a grid line).  "
    "Non-trivial = recipe with >=1 variable for which optyx reports a finite degree; distinct by canonical recipe."
)
ASSUMPTIONS = [
    "exact polynomial arithmetic over fractions.Fraction; non-polynomiality is confirmed numerically before it is reported",
]

X, Y, P = L.X, L.Y, L.P
V3, W3 = L.V3, L.W3


def layer_E():
    v, w = V3, W3
    sinv = ("vun", "sin", ("vbin", "+", v, ("c", 0)))
    vv = ("vbin", "*", v, v)
    out = [
        ("dot", sinv, w), ("dot", vv, w), ("dot", v, vv), ("dot", ("vbin", "/", ("c", 1), v) if False else ("rvbin", "/", ("c", 1), v), w),
        ("mm", L.C3, vv), ("LC", L.C3, sinv), ("bin", "+", ("LC", L.C3, sinv), Y),
        ("bin", "+", ("mm", L.C3, vv), Y), ("mm", L.C3, ("vbin", "*", v, ("c", 2))),
        ("qform", ("vbin", "*", v, w), L.Q3), ("qform", sinv, L.Q3), ("qform", ("vbin", "+", v, ("c", 1)), L.Q3),
        ("dot", ("vbin", "+", v, ("c", 1)), ("vbin", "-", w, ("c", 2))),
        ("dot", ("vbin", "*", v, ("c", 2)), ("arr", (1.0, 2.0, 3.0))) if False else ("mm", ("vbin", "*", v, ("c", 2)), ("arr", (1.0, 2.0, 3.0))),
        ("bin", "*", ("bin", "+", ("C", 2), ("C", 3)), X), ("bin", "*", X, ("bin", "/", ("C", 1), ("C", 2))),
        ("bin", "**", X, ("bin", "+", ("C", 1), ("C", 1))), ("bin", "**", ("bin", "+", X, Y), ("c", 3)),
        ("bin", "*", P, X), ("bin", "+", X, P), ("bin", "**", X, P),
        ("bin", "/", X, ("bin", "+", ("C", 1), ("C", 1))), ("bin", "/", ("c", 1), ("bin", "+", X, ("c", 1))),
        ("bin", "**", ("bin", "**", X, ("c", 2)), ("c", 0.5)), ("bin", "**", X, ("c", 2.0)),
        ("bin", "**", X, ("c", -2)), ("bin", "**", X, ("c", 2.5)), ("bin", "**", ("c", 2), X),
        ("sum", ("vbin", "*", v, w)), ("vsum", ("vbin", "*", v, w)), ("psum", ("vbin", "*", v, v)),
        ("sum", ("Mv", L.M22, ("vvar", "u", 2))), ("msum", ("mbin", "*", L.M22, L.M22)),
        ("trace", L.M22), ("frob", L.M22), ("norm", v, 2), ("norm", v, 1),
        # both operands the SAME object (the builder memoises vector recipes) and equal-but-distinct objects
        ("dot", vv, vv), ("dot", sinv, sinv), ("dot", ("vbin", "+", v, ("c", 1)), ("vbin", "+", v, ("c", 1))),
        ("dot", vv, ("fresh", 1, vv)), ("dot", sinv, ("fresh", 1, sinv)), ("dot", v, v), ("dot", v, ("fresh", 1, v)),
        ("dot", ("vbin", "*", v, w), ("vbin", "*", v, w)), ("dot", ("rvbin", "/", ("c", 1), v), ("rvbin", "/", ("c", 1), v)),
        ("qform", vv, L.Q3), ("mm", ("vbin", "*", vv, ("c", 1)), L.C3),
    ]
    for k in (0, 1, 2, 3, 0.5, -1, 2.5, -2, 1.5):
        out.append(("sum", ("vpow", v, k)))
        out.append(("bin", "+", ("sum", ("vpow", v, k)), Y))
        out.append(("bin", "*", ("c", 2), ("sum", ("vpow", v, k))))
    for f in L.VUN:
        out.append(("sum", ("vun", f, v)))
    # every E recipe also inside the depth<=1 contexts that keep polynomials polynomial
    ctx = []
    for r in out:
        ctx += [("bin", "+", r, X), ("bin", "-", ("c", 1), r), ("un", "neg", r), ("bin", "*", ("c", 3), r),
                ("bin", "/", r, ("c", 2)), ("bin", "**", r, ("c", 1)), ("bin", "**", r, ("c", 2)),
                ("bin", "*", r, X)]
    return out + ctx


def layer_F():
    """numpy spellings of constants: numpy scalars, 0-d arrays and multi-element arrays (an array constant makes the
    expression array-valued: its degree is the largest component degree, non-polynomial if any component is)."""
    arrays = [(2.0,), (2.0, 2.0), (1.0, 3.0), (3.0, 1.0), (2.0, 0.5), (0.5, 2.0), (1.0, -1.0), (-1.0, 1.0), (0.0, 2.0, 4.0),
              (1.0, 1.0), (0.0, 0.0), (1.0, 2.0), (0.0, 1.0), (1.0, 1.5), (1.0, 1.0, 1.0, 7.0)]
    consts = [("ka", a, w) for a in arrays for w in ("arr", "Const")]
    consts += [("k", v, sp) for v in (0, 1, 2, 3, -1) for sp in ("np64", "npi", "a0")] + [("k", 0.5, "np64"), ("k", 2.5, "a0")]
    out = []
    for base in (X, ("bin", "+", X, Y), ("bin", "*", X, Y)):
        for k in consts:
            for op in ("**", "*", "/", "+"):
                out.append(("bin", op, base, k))
            if k[0] == "ka" and k[2] == "Const" or k[0] == "k":
                for op in ("**", "*", "/", "-"):
                    out.append(("bin", op, k, base))
    ctx = []
    for r in out:
        ctx += [("bin", "+", r, Y), ("bin", "*", ("c", 2), r), ("bin", "+", ("bin", "*", ("c", 2), r), Y), ("bin", "*", r, X),
                ("bin", "**", r, ("c", 2)), ("un", "neg", r), ("bin", "-", X, r)]
    return out + ctx


def expand(r):
    """component recipes of a recipe holding ("ka", values, wrap) array constants (index-aligned broadcasting)."""
    lens = set()

    def scan(t):
        if isinstance(t, tuple):
            if t and t[0] == "ka":
                lens.add(len(t[1]))
                return
            for u in t:
                scan(u)

    scan(r)
    if not lens:
        return [r]
    n = max(lens)

    def sub(t, i):
        if isinstance(t, tuple):
            if t and t[0] == "ka":
                return ("c", t[1][i % len(t[1])])
            if t and t[0] == "k":
                return ("c", t[1])
            return tuple(sub(u, i) for u in t)
        return t

    return [sub(r, i) for i in range(n)]


def shards(tier, seed):
    return layer_items(nC=0) + [("E", i, 4) for i in range(4)] + [("F", i, 4) for i in range(4)]


def recipes(item, tier):
    if item[0] == "E":
        return L.shard(iter(layer_E()), item[1], item[2])
    if item[0] == "F":
        return L.shard(iter(layer_F()), item[1], item[2])
    return layer_recipes(item, tier)


def witness_nonpoly(r, names, params, d):
    """Numeric witness that r is not a polynomial of degree <= d: a (d+1)-th finite difference != 0."""
    h = 0.25
    n = len(names)
    if n == 0:
        return None
    dirs = [np.eye(n)[i] for i in range(n)] + [np.ones(n), np.array([(-1.0) ** i for i in range(n)])]
    bases = [np.full(n, 0.25), np.full(n, 1.0), np.array([0.5 + 0.25 * i for i in range(n)]), np.full(n, -1.5)]
    K = d + 2
    coef = np.array([(-1.0) ** (d + 1 - k) * comb(d + 1, k) for k in range(K)])
    for b0 in bases:
        for dv in dirs:
            pts = {nm: b0[i] + h * dv[i] * np.arange(K) for i, nm in enumerate(names)}
            vals, ok, err = ref_value(r, pts, K, params)
            if not ok.all():
                continue
            delta = float(np.dot(coef, vals))
            scale = float(np.max(np.abs(vals))) * 2.0 ** (d + 1) + 1.0
            if abs(delta) > 1e-6 * scale + float(err.sum()):
                return {"base": b0.tolist(), "dir": dv.tolist(), "h": h, "order": d + 1, "difference": delta}
    return None


def check_recipe(r, tier, seed, rep=None, want=None):
    from optyx import analysis, Problem
    from optyx.core.expressions import Expression

    fails = Fails(want)
    comps = expand(r)
    names = var_names(comps[0])
    pnames = param_names(comps[0])
    params = {p: 0.75 for p in pnames}
    try:
        polys = [ref_poly(cr, names, params) for cr in comps]
    except Exception as ex:
        if rep:
            rep.skipped["no_denotation:" + type(ex).__name__] += 1
        return fails
    if any(q is None for q in polys):
        wi = [q is None for q in polys].index(True)
        true_deg = None
    else:
        wi = max(range(len(polys)), key=lambda i: polys[i].degree())
        true_deg = polys[wi].degree()
    poly, worst = polys[wi], comps[wi]
    reported = {}

    def fresh():
        e = Builder(params=params).build(r)
        return e if isinstance(e, Expression) else None

    try:
        if fresh() is None:
            if rep:
                rep.skipped["folds_to_python_number"] += 1
            return fails
    except Exception as ex:
        if rep:
            rep.skipped["build:" + type(ex).__name__] += 1
        return fails

    def observe(label, fn):
        try:
            reported[label] = fn()
        except Exception as ex:
            fails.add("exception:" + label.split("/")[0] + ":" + type(ex).__name__, msg=str(ex)[:200])
        if rep:
            rep.transitions += 1

    for trav, thr in (("recursive", None), ("iterative", 0)):
        ctxs = threshold(thr, analysis) if thr is not None else threshold(analysis._RECURSION_THRESHOLD, analysis)
        with ctxs:
            clear_lru(analysis)
            observe(trav + "/degree", lambda: fresh().degree)
            observe(trav + "/compute_degree", lambda: analysis.compute_degree(fresh()))
            observe(trav + "/is_linear", lambda: 1 if analysis.is_linear(fresh()) else None)
            observe(trav + "/is_quadratic", lambda: 2 if analysis.is_quadratic(fresh()) else None)
            observe(trav + "/Expression.is_linear", lambda: 1 if fresh().is_linear() else None)

            def lin_problem():
                e = fresh()
                pr = Problem().minimize(e).subject_to(fresh() <= 1)
                return 1 if pr._is_linear_problem() else None

            def auto_method():
                pr = Problem().minimize(fresh()).subject_to(fresh() <= 1)
                return 2 if pr._auto_select_method() == "SLSQP" else None

            observe(trav + "/Problem._is_linear_problem", lin_problem)
            observe(trav + "/Problem._auto_select_method", auto_method)
    clear_lru(analysis)
    # non-initial states: every sub-expression object is classified BEFORE the expression that contains it
    # (a user inspects a term, or solved a model containing it, and then reuses the same object)
    from mc.interp import walk, kind_of

    subs = [s_ for s_ in walk(r) if kind_of(s_) == "s" and s_[0] not in ("ka", "k")]
    subs = sorted(set(subs), key=lambda t: (size(t), repr(t)))
    for trav, thr in (("recursive", None), ("iterative", 0)):
        ctxs = threshold(thr, analysis) if thr is not None else threshold(analysis._RECURSION_THRESHOLD, analysis)
        with ctxs:
            clear_lru(analysis)
            try:
                bshared = Builder(params=params, share_scalars=True)
                root = bshared.build(r)
                last = None
                for sub in subs:
                    obj = bshared.build(sub)
                    if isinstance(obj, Expression):
                        last = obj.degree
                        if rep:
                            rep.transitions += 1
                if isinstance(root, Expression):
                    reported[trav + "/degree-after-subexpression-queries"] = root.degree
                    reported[trav + "/is_linear-after-subexpression-queries"] = 1 if root.is_linear() else None
            except Exception as ex:
                fails.add("exception:bottom-up:" + type(ex).__name__, msg=str(ex)[:200])
    clear_lru(analysis)
    # query ORDER on one object: a threshold question (is_linear / is_quadratic / a Problem's routing decision) asked
    # first, the exact degree afterwards - every answer is about the same object
    for order in (("is_linear", "is_quadratic", "degree"), ("is_quadratic", "degree", "is_linear"),
                  ("Expression.is_linear", "degree", "compute_degree"), ("problem", "degree", "is_quadratic"),
                  ("variables", "degree", "is_linear"), ("variables", "is_quadratic", "degree")):
        try:
            clear_lru(analysis)
            e1 = fresh()
            for q in order:
                lab = "after-" + "-".join(order[:order.index(q)]) + "/" + q if order.index(q) else None
                if q == "is_linear":
                    val = 1 if analysis.is_linear(e1) else None
                elif q == "Expression.is_linear":
                    val = 1 if e1.is_linear() else None
                elif q == "is_quadratic":
                    val = 2 if analysis.is_quadratic(e1) else None
                elif q == "degree":
                    val = e1.degree
                elif q == "compute_degree":
                    val = analysis.compute_degree(e1)
                elif q == "variables":
                    # the user (or a Problem) collects variables first: every node's get_variables() has run
                    from optyx.core.expressions import get_all_variables as _gav

                    e1.get_variables()
                    _gav(e1)
                    for attr in ("vector", "left", "right", "expression", "operand", "matrix"):
                        sub_ = getattr(e1, attr, None)
                        if sub_ is not None and hasattr(sub_, "get_variables"):
                            sub_.get_variables()
                    val = None
                else:
                    Problem().minimize(e1)._is_linear_problem()
                    val = None
                if lab is not None:
                    reported[lab] = val
                if rep:
                    rep.transitions += 1
        except Exception as ex:
            fails.add("exception:query-order:" + type(ex).__name__, msg=str(ex)[:200], order=order)
    clear_lru(analysis)
    if rep:
        rep.states += 1
        rep.transitions += size(r)
        rep.outcomes["degree:%s" % (reported.get("recursive/degree"),)] += 1
    finite = {k: d for k, d in reported.items() if d is not None}
    if rep and finite and names:
        rep.nt(r)
    wit_cache = {}
    for label, d in finite.items():
        if rep:
            rep.evaluations += 1
        if not isinstance(d, int) or d < 0:
            fails.add("degree-not-a-natural-number:" + label, reported=d)
            continue
        if true_deg is not None:
            if true_deg > d:
                mono = max(poly.t, key=sum)
                fails.add("under-report:" + label, reported=d, true_degree=true_deg,
                          witness={"monomial": dict(zip(names, mono)), "coefficient": str(poly.t[mono]),
                                   **({"component": wi} if len(comps) > 1 else {})})
        else:
            if d not in wit_cache:
                wit_cache[d] = witness_nonpoly(worst, names, params, d)
            if wit_cache[d] is not None:
                fails.add("under-report:" + label, reported=d, true_degree="non-polynomial", witness=wit_cache[d])
            elif rep:
                rep.skipped["suspected_but_no_witness"] += 1
    return fails


def check_param_phase(r, tier, seed, rep=None, want=None):
    """Recipes holding a Parameter: classified while the parameter holds p0 (2, 1, 0: values at which a power or a
    product WOULD be a low-degree polynomial), the parameter is then set to p1 and the SAME objects are classified
    again: what is reported then must not under-report the polynomial at the parameter's current value."""
    from optyx import analysis
    from optyx.core.expressions import Expression

    fails = Fails(want)
    comps = expand(r)
    if len(comps) != 1 or comps[0] != r:
        return fails
    names = var_names(r)
    pnames = param_names(r)
    if not pnames or not names:
        return fails
    for p0, p1 in ((2.0, 3.0), (2.0, 0.5), (1.0, 2.0), (0.0, 1.0), (1.0, -1.0)):
        try:
            b = Builder(params={pn: p0 for pn in pnames})
            e = b.build(r)
            if not isinstance(e, Expression):
                return fails
            clear_lru(analysis)
            first = (e.degree, analysis.compute_degree(e), e.is_linear(), analysis.is_quadratic(e))
            for pn in pnames:
                b.parameter(pn).set(p1)
            reported = {"degree": e.degree, "compute_degree": analysis.compute_degree(e),
                        "is_linear": 1 if e.is_linear() else None, "is_quadratic": 2 if analysis.is_quadratic(e) else None}
        except Exception as ex:
            fails.add("exception:param-phase:" + type(ex).__name__, msg=str(ex)[:200], built_at=p0, now=p1)
            continue
        finally:
            clear_lru(analysis)
        if rep:
            rep.transitions += 8 + len(pnames)
        params = {pn: p1 for pn in pnames}
        try:
            poly = ref_poly(r, names, params)
        except Exception:
            continue
        true_deg = None if poly is None else poly.degree()
        for label, d in reported.items():
            if d is None:
                continue
            if rep:
                rep.evaluations += 1
            if true_deg is not None and true_deg <= d:
                continue
            if true_deg is None:
                wit = witness_nonpoly(r, names, params, d)
                if wit is None:
                    continue
            else:
                wit = {"true_degree": true_deg}
            fails.add("under-report-after-parameter-update:" + label, reported=d, classified_at=p0, now=p1,
                      first_answers=first, witness=wit)
    return fails


def check_both(r, tier, seed, rep=None, want=None):
    fs = check_recipe(r, tier, seed, rep, want)
    if size(r) <= 7:
        for k, d in check_param_phase(r, tier, seed, rep, want):
            fs.append((k, d))
    return fs


def explore(item, tier, seed):
    return std_explore(check_both, item, tier, seed, recipes(item, tier))


culprit = std_culprit(check_both)
replay = std_replay(check_both)
