"""./check <ID> [--tier quick|thorough] [--replay file] [--jobs N]"""
from __future__ import annotations

import argparse
import importlib
import os
import sys


def main(argv=None):
    ap = argparse.ArgumentParser()
    ap.add_argument("pid")
    ap.add_argument("--tier", default=os.environ.get("VERIF_TIER", "quick"), choices=["quick", "thorough"])
    ap.add_argument("--replay")
    ap.add_argument("--jobs", type=int, default=None)
    ns = ap.parse_args(argv)
    seed = int(os.environ.get("VERIF_SEED", "0") or 0)
    from mc import engine

    sys.path.insert(0, engine.SRC)
    try:
        import optyx  # noqa: F401
    except Exception as e:  # broken build is never "held"
        print(f"HARNESS-ERROR cannot import optyx from {engine.SRC}: {e!r}")
        return 2
    mod = importlib.import_module("checks." + ns.pid.lower())
    if ns.replay:
        return engine.run_replay(mod, ns.replay)
    return engine.run_check(mod, ns.tier, seed, ns.jobs)


if __name__ == "__main__":
    sys.exit(main())
