"""Greedy delta-debugging of recipes: shrink to a minimal culprit that still fails the same way."""

from __future__ import annotations

from mc.interp import kind_of, SCALAR_HEADS, VECTOR_HEADS, MATRIX_HEADS

_HEADS = SCALAR_HEADS | VECTOR_HEADS | MATRIX_HEADS | {"fresh"}
_LEAVES = (("var", "x"), ("c", 2))
_DATA = {"arr", "arr2", "lst", "lst2", "c", "C", "k", "var", "par", "vvar", "mvar"}


def _is_recipe(x):
    return isinstance(x, tuple) and x and isinstance(x[0], str) and x[0] in _HEADS


def size(r):
    return 1 + sum(size(c) for c in r[1:] if _is_recipe(c))


def subrecipes(r):
    for c in r[1:]:
        if _is_recipe(c):
            yield c
            yield from subrecipes(c)


def _replace_at(r, path, new):
    if not path:
        return new
    i = path[0]
    return r[:i] + (_replace_at(r[i], path[1:], new),) + r[i + 1:]


def _positions(r, path=()):
    for i, c in enumerate(r[1:], start=1):
        if _is_recipe(c):
            yield path + (i,), c
            yield from _positions(c, path + (i,))


def candidates(r):
    k = kind_of(r)
    seen = set()
    # 1. hoist a same-kind sub-recipe to the top
    for s in sorted(set(subrecipes(r)), key=lambda t: (size(t), repr(t))):
        if kind_of(s) == k and s not in seen:
            seen.add(s)
            yield s
    # 2. simplify one position: replace by a same-kind child, or by a leaf
    for path, s in _positions(r):
        if s[0] in _DATA:
            continue
        ks = kind_of(s)
        for c in s[1:]:
            if _is_recipe(c) and kind_of(c) == ks:
                yield _replace_at(r, path, c)
        if ks == "s":
            for leaf in _LEAVES:
                if s != leaf:
                    yield _replace_at(r, path, leaf)


def minimise(r, fails, budget=300):
    """Smallest recipe reachable by the reductions above for which fails(recipe) is still true."""
    r = tuple(r)
    improved = True
    while improved and budget > 0:
        improved = False
        for c in candidates(r):
            if size(c) > size(r) or c == r:
                continue
            if size(c) == size(r) and not (c < r if _cmp_ok(c, r) else False):
                continue
            budget -= 1
            if budget <= 0:
                break
            try:
                if fails(c):
                    r = c
                    improved = True
                    break
            except Exception:
                continue
    return r


def _cmp_ok(a, b):
    try:
        a < b
        return True
    except TypeError:
        return False
