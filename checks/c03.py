"""C03  solver-facing gradients / Jacobians are correct in the declared variable order (all fast paths)."""

from __future__ import annotations

import itertools

from checks.common import *  # noqa: F401,F403
from checks.common import Fails, close, REL_D, FOREIGN, np, natural_key, Report, detuple
from mc import layers as L
from mc.build import Builder
from mc.interp import var_names, param_names
from mc.minimise import minimise, size
from mc.oracle import grid_points, ref_jet

ID = "C03"
LEVEL = "model_checking"
RULE = (
    "states = lists [e_1..e_m] (m<=3) of row recipes: every singleton of the full row menu (each jacobian_row "
    "implementation as a root and under f+c, f-c, c+f, c*f, f*c, -f, f+x wrappers; every layer-A tree of depth<=1; "
    "scaled-variable patterns and near-misses), all ordered pairs of the reduced menu, every full-menu row paired in "
    "both orders with every row of the small (quick) / reduced (thorough) menu, and all triples of the small menu; transitions = API calls on the real code (builder ops, compile_jacobian / compile_gradient / "
    "CompiledExpression per variable list of the menu natural, reversed, rotated, superset-front/mid/end); an "
    "evaluation = one Jacobian entry compared with the jet reference at a regular grid point.  Non-trivial = "
    "list with >=1 variable and >=1 regular point; distinct by canonical tuple of recipes.  Outcome classes "
    "record the __name__ of the returned callable (the path taken)."
)
ASSUMPTIONS = ["reference jets mc/alg.py; regular points only (singular points belong to C19)"]

X, Y, P = L.X, L.Y, L.P
V3, W3, M22, S22 = L.V3, L.W3, L.M22, L.S22
V4 = ("vvar", "v", 4)


def node_kinds():
    v, w = V3, W3
    out = [
        ("sum", v), ("dot", v, v), ("dot", v, w),
        ("dot", ("slice", v, 0, 2, None), ("slice", v, 1, 3, None)),
        ("dot", v, ("fresh", 1, ("slice", v, 0, 3, None))),
        ("dot", ("slice", v, None, None, -1), v),
        ("dot", ("slice", V4, 0, 3, None), ("slice", V4, 1, 4, None)),
        ("mm", L.C3, v), ("LC", L.C3, ("vbin", "+", v, ("c", 1))), ("mm", L.C3, ("vbin", "*", v, w)),
        ("qform", v, L.Q3), ("qform", v, L.Q3N), ("qform", ("vbin", "-", v, w), L.Q3N),
        ("dot", v, ("mv", L.Q3N, v)),
        ("msum", M22), ("msum", ("mbin", "*", M22, ("c", 2))), ("msum", S22), ("msum", ("mbin", "*", S22, S22)),
        ("frob", M22), ("norm", v, 2), ("norm", v, 1), ("sum", ("vbin", "*", v, w)),
        ("dot", ("vbin", "+", v, w), v),
    ]
    out += [("sum", ("vpow", v, k)) for k in (1, 2, 3, 0.5, -1)]
    out += [("sum", ("vun", f, v)) for f in L.VUN]
    out += [("sum", ("vpow", ("slice", v, None, None, -1), 3)), ("sum", ("vun", "sin", ("slice", v, 1, 3, None)))]
    return out


def wrappers(n):
    c = ("c", 3)
    return [n, ("bin", "+", n, c), ("bin", "-", n, c), ("bin", "+", c, n), ("bin", "*", c, n),
            ("bin", "*", n, c), ("un", "neg", n), ("bin", "+", n, X), ("bin", "*", P, n),
            ("bin", "*", ("c", 2), ("bin", "*", ("c", 3), n)), ("bin", "-", c, n)]


def special_rows():
    sq = lambda a: ("bin", "**", a, ("c", 2))  # noqa: E731
    two = ("c", 2)
    return [
        ("bin", "+", sq(X), sq(Y)), ("bin", "*", ("bin", "*", two, X), Y), ("bin", "*", X, Y),
        ("bin", "-", sq(X), sq(Y)), ("bin", "+", ("bin", "*", ("c", 3), sq(X)), ("bin", "*", ("c", 3), sq(Y))),
        ("bin", "+", sq(X), ("bin", "*", two, Y)), ("bin", "*", two, X), ("bin", "*", X, two),
        ("bin", "+", ("bin", "*", two, X), ("bin", "*", ("c", 5), Y)), ("c", 4.0), P,
        ("bin", "+", ("bin", "*", P, X), Y), ("bin", "*", Y, X), ("bin", "*", sq(X), Y),
    ]


def full_menu():
    out = []
    for n in node_kinds():
        out += wrappers(n)
    out += list(L.layer_A(L.LEAVES[4], maxdepth=1))
    out += special_rows()
    # the simplifier alphabet (every tree of <= 4 nodes over + - * / ** neg and the leaves 0, 1, 2, -1, 0.5, x, y, p)
    # and nested constant powers (the derivative helpers simplify powers, products and sums of sub-derivatives)
    from mc.interp import var_names as _vn

    out += [r for r in L.layer_B(4) if r[0] != "c" and _vn(r)]
    pw = lambda a, k: ("bin", "**", a, ("c", k))  # noqa: E731
    out += [pw(pw(X, 2), 1.5), pw(pw(X, 2), 0.5), pw(pw(("bin", "*", X, Y), 2), 1.5), pw(pw(X, 2), -0.5),
            pw(pw(("bin", "+", X, Y), 2), 0.5), pw(pw(X, 3), 2), pw(pw(X, 0.5), 2), pw(pw(Y, 4), 0.25),
            ("sum", ("vbin", "**", ("vbin", "**", ("vbin", "*", V3, ("c", 2)), ("c", 2)), ("c", 1.5)))]
    out += L.tiny_coefficient_rows()
    return out


def reduced_menu():
    nk = node_kinds()
    pick = [0, 1, 2, 3, 4, 7, 8, 10, 11, 14, 16, 18, 19, 22]
    out = [nk[i] for i in pick]
    out += [("sum", ("vpow", V3, 3)), ("sum", ("vpow", V3, 2)), ("sum", ("vun", "exp", V3)), ("sum", ("vun", "log", V3))]
    out += [("bin", "-", nk[0], ("c", 3)), ("bin", "*", ("c", 3), nk[1]), ("bin", "*", nk[7], ("c", 3)),
            ("bin", "*", ("c", 3), nk[14]), ("bin", "+", nk[2], X)]
    out += special_rows()
    out += [X, ("un", "sin", X), ("bin", "/", X, Y), ("bin", "**", X, Y), ("un", "abs", Y)]
    return out


def small_menu():
    nk = node_kinds()
    return [nk[0], nk[1], nk[3], nk[7], nk[10], ("sum", ("vpow", V3, 3)), ("c", 4.0),
            ("bin", "+", ("bin", "*", ("c", 2), X), ("bin", "*", ("c", 5), Y)), ("bin", "*", X, Y), P]


def all_cases(tier):
    for r in full_menu():
        yield (r,)
    red = reduced_menu()
    for a in red:
        for b in red:
            yield (a, b)
    sm = small_menu() if tier == "thorough" else small_menu()[:7]
    for t in itertools.product(sm, repeat=3):
        yield t
    # every row of the full menu next to every row of the small (quick) / reduced (thorough) menu, both orders
    others = red if tier == "thorough" else small_menu()
    for a in full_menu():
        for b in others:
            yield (a, b)
            yield (b, a)


NSH = 32


def shards(tier, seed):
    return [(i, NSH) for i in range(NSH)]


def v_menu(names, tier):
    nat = sorted(names, key=natural_key)
    z = FOREIGN
    menu = [("natural", nat), ("reversed", nat[::-1]), ("superset-front", [z] + nat),
            ("superset-mid", nat[: len(nat) // 2] + [z] + nat[len(nat) // 2:]), ("superset-end", nat + [z]),
            ("rotated", nat[1:] + nat[:1])]
    if tier == "thorough" and len(nat) <= 4:
        menu += [(f"perm{k}", list(p)) for k, p in enumerate(itertools.permutations(nat))]
    seen, out = set(), []
    for lab, v in menu:
        if v and tuple(v) not in seen:
            seen.add(tuple(v))
            out.append((lab, v))
    return out


def check_case(rows, tier, seed, rep=None, want=None):
    from optyx.core import autodiff, compiler
    from optyx.core.expressions import Expression

    fails = Fails(want)
    names = sorted(set().union(*[var_names(r) for r in rows]))
    pnames = sorted(set().union(*[param_names(r) for r in rows]))
    params = {p: 0.75 for p in pnames}
    pts, Pn = grid_points(names, seed, full=False, P=6 if len(rows) > 1 else 8)
    wrt = names + [FOREIGN]
    refs = []
    m = np.ones(Pn, dtype=bool)
    for r in rows:
        v, g, H, ok, reg, ev, eg, eH = ref_jet(r, wrt, pts, Pn, params)
        m &= ok & reg
        refs.append((g, eg))
    from optyx.core.expressions import Constant

    # two builds: fresh objects per row, and shared objects (identical sub-recipes are ONE object across the rows,
    # as when the user keeps `q = quadratic_form(x, Q)` and uses it in objective and constraints)
    builds = []
    for shared in (False, True):
        bb = Builder(params=params, share_scalars=shared)
        try:
            ee = [bb.build(r) for r in rows]
        except Exception as ex:
            fails.add("exception:build:" + type(ex).__name__, msg=str(ex)[:200])
            return fails
        builds.append((bb, [e if isinstance(e, Expression) else Constant(e) for e in ee]))
    b, es = builds[0]
    bS, esS = builds[1]
    idx = np.flatnonzero(m)
    if rep:
        rep.states += 1
        rep.transitions += sum(size(r) for r in rows)
        if names and len(idx):
            rep.nt(rows)
        rep.skipped["non_regular_or_out_of_domain_points"] += int((~m).sum())
    if not len(idx):
        if rep:
            rep.skipped["no_regular_point"] += 1
        return fails
    pos = {n: i for i, n in enumerate(wrt)}
    G = np.stack([g for g, _ in refs])          # (m, nwrt, P)
    E = np.stack([eg for _, eg in refs])
    for vlab, vn in v_menu(names, tier) or [("foreign-only", [FOREIGN])]:
        V = b.variables_for(vn)
        perm = [pos[n] for n in vn]
        fns = []
        try:
            jf = autodiff.compile_jacobian(es, V)
            fns.append(("compile_jacobian:" + jf.__name__, lambda x, f=InPlace(jf): np.asarray(f(x), dtype=float)))
            from mc.callers import typed_point_mismatch

            tm = typed_point_mismatch(jf, len(vn))
            if tm is not None:
                fails.add("point-dtype-leaks-into-jacobian:" + jf.__name__, V=vlab, **tm)
        except Exception as ex:
            fails.add("exception:compile_jacobian:" + type(ex).__name__, V=vlab, msg=str(ex)[:200])
        if len(es) == 1:
            try:
                gf = compiler.compile_gradient(es[0], V)
                fns.append(("compile_gradient:" + gf.__name__, lambda x, f=InPlace(gf): np.asarray(f(x), dtype=float).reshape(1, -1)))
                ce = compiler.CompiledExpression(es[0], V)
                fns.append(("CompiledExpression.gradient", lambda x, c=InPlace(ce.gradient): np.asarray(c(x), dtype=float).reshape(1, -1)))
            except Exception as ex:
                fails.add("exception:compile_gradient:" + type(ex).__name__, V=vlab, msg=str(ex)[:200])
        # shared objects: compile each row alone first (warms per-node memos), then the whole list, then again
        try:
            VS = bS.variables_for(vn)
            for e1 in esS:
                autodiff.compile_jacobian([e1], VS)
            jS = autodiff.compile_jacobian(esS, VS)
            fns.append(("shared-objects:" + jS.__name__, lambda x, f=InPlace(jS): np.asarray(f(x), dtype=float)))
            jS2 = autodiff.compile_jacobian(esS, VS)
            fns.append(("shared-objects-recompiled:" + jS2.__name__, lambda x, f=InPlace(jS2): np.asarray(f(x), dtype=float)))
        except Exception as ex:
            fails.add("exception:compile_jacobian-shared:" + type(ex).__name__, V=vlab, msg=str(ex)[:200])
        if rep:
            rep.transitions += len(fns) + len(esS)
            for lab, _ in fns:
                rep.outcomes["path:" + lab] += 1
        for lab, fn in fns:
            for k in idx:
                x = np.array([float(pts[n][k]) if n in pts else 0.125 for n in vn])
                try:
                    got = fn(x)
                except Exception as ex:
                    fails.add("exception:call:" + lab.split(":")[0] + ":" + type(ex).__name__, V=vlab, x=x, msg=str(ex)[:200])
                    break
                exp = G[:, perm, k]
                if got.shape != exp.shape:
                    fails.add("jacobian-shape:" + lab.split(":")[0], V=vlab, shape=got.shape, expected=exp.shape)
                    break
                if rep:
                    rep.evaluations += got.size
                if not close(got, exp, E[:, perm, k], REL_D).all():
                    fails.add("jacobian-mismatch:" + lab, V=vlab, order=vn, x=x, got=got, expected=exp)
                    break
    return fails


def explore(item, tier, seed):
    i, n = item
    rep = Report()
    for k, rows in enumerate(all_cases(tier)):
        if k % n != i:
            continue
        fs = check_case(rows, tier, seed, rep)
        seen = set()
        for kind, d in fs:
            if kind not in seen:
                seen.add(kind)
                rep.violation(kind, {"rows": rows}, **d)
        if rep.states % 211 == 1:
            rep.sample({"rows": rows})
    return rep


def culprit(v):
    rows = detuple(v["case"]["rows"])
    kind = v["kind"]
    # drop rows, then minimise each remaining row
    rows = list(rows)
    changed = True
    while changed and len(rows) > 1:
        changed = False
        for i in range(len(rows)):
            cand = rows[:i] + rows[i + 1:]
            if check_case(tuple(cand), "quick", 0, None, want=kind):
                rows = cand
                changed = True
                break
    for i in range(len(rows)):
        rows[i] = minimise(rows[i], lambda c, i=i: bool(
            check_case(tuple(rows[:i] + [c] + rows[i + 1:]), "quick", 0, None, want=kind)))
    return {"kind": kind, "rows": rows}


def replay(art):
    rows = detuple(art["culprit"]["rows"])
    fs = check_case(tuple(rows), "quick", art.get("seed", 0), None, want=art["culprit"]["kind"])
    return [{"kind": k, "detail": d} for k, d in fs]
