#!/venv/bin/python
"""Apply one candidate mutant (or a patch file) to a scratch copy of /repo, optionally run the pinned
repository tests on it, run the given checks against it, and delete the copy.

    selftest/mutate.py M03a C03 [--tests] [--tier quick]
    selftest/mutate.py /path/to/patch.diff C05 C08
"""
import argparse, importlib.util, os, shutil, subprocess, sys, tempfile

HERE = os.path.dirname(os.path.abspath(__file__))


def load_candidates():
    spec = importlib.util.spec_from_file_location("cands", os.path.join(HERE, "mutants", "candidates.py"))
    m = importlib.util.module_from_spec(spec)
    spec.loader.exec_module(m)
    return {c["id"]: c for c in m.MUTANTS}


def main():
    ap = argparse.ArgumentParser()
    ap.add_argument("mutant")
    ap.add_argument("checks", nargs="*")
    ap.add_argument("--tests", action="store_true")
    ap.add_argument("--tier", default="quick")
    ns = ap.parse_args()
    scratch = tempfile.mkdtemp(prefix="optyx_mut_", dir="/var/tmp")
    try:
        root = os.path.join(scratch, "repo")
        shutil.copytree("/repo", root, ignore=shutil.ignore_patterns(".git", "__pycache__", "docs", "benchmarks", "examples"))
        if os.path.exists(ns.mutant):
            subprocess.run(["git", "init", "-q"], cwd=root, check=True)
            r = subprocess.run(["git", "apply", "--whitespace=nowarn", os.path.abspath(ns.mutant)], cwd=root)
            if r.returncode:
                print("MUTANT-APPLY-FAILED"); return 3
        else:
            c = load_candidates()[ns.mutant]
            p = os.path.join(root, c["file"])
            s = open(p).read()
            if s.count(c["old"]) < 1:
                print("MUTANT-APPLY-FAILED (pattern not found)"); return 3
            open(p, "w").write(s.replace(c["old"], c["new"], 1))
        if ns.tests:
            r = subprocess.run(f"cd {root} && PYTHONPATH={root}/src /venv/bin/python -m pytest -q -x -p no:cacheprovider --timeout=900 2>&1 | tail -3",
                               shell=True, capture_output=True, text=True)
            print("REPO-TESTS:", r.stdout.strip().splitlines()[-1] if r.stdout.strip() else r.stderr[-200:])
        env = dict(os.environ, OPTYX_SRC=os.path.join(root, "src"))
        rc = 0
        for chk in ns.checks:
            r = subprocess.run([os.path.join(os.path.dirname(HERE), "check"), chk, "--tier", ns.tier], env=env, capture_output=True, text=True)
            viol = [l for l in r.stdout.splitlines() if l.startswith("VIOLATION")]
            culp = [l for l in r.stdout.splitlines() if l.strip().startswith("culprit:")]
            print(f"{ns.mutant} {chk}: exit={r.returncode} violations={len(viol)}")
            for l in culp[:3]:
                print("   ", l.strip()[:300])
            if r.returncode not in (0, 1):
                print(r.stdout[-1500:], r.stderr[-1500:])
            rc = max(rc, r.returncode)
        return rc
    finally:
        shutil.rmtree(scratch, ignore_errors=True)


if __name__ == "__main__":
    sys.exit(main())
