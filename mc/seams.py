"""Back-end seams: record / script what optyx hands to SciPy.

`optyx.solvers.scipy_solver.minimize` is a module global and `scipy.optimize.linprog` is imported
inside `solve_lp` at call time, so both can be wrapped from outside without touching the sources.

    with Seam() as s:                      # capture mode: record, then call the real back-end
        sol = problem.solve(method="SLSQP")
    s.calls[0].kind == "minimize";  s.calls[0].kw["fun"], ["jac"], ["bounds"], ...

    with Seam(script=[answer, ...]) as s:  # environment mode: k-th back-end call returns answer k
        ...                                #   (an OptimizeResult, an exception instance to raise,
                                           #    or a callable(call) -> result)
"""

from __future__ import annotations

import numpy as np
import scipy.optimize

import optyx.solvers.scipy_solver as _ss


class Call:
    def __init__(self, kind, kw):
        self.kind = kind
        self.kw = kw
        self.result = None
        self.raised = None


class Seam:
    def __init__(self, script=None, passthrough=True):
        self.script = list(script) if script is not None else None
        self.passthrough = passthrough
        self.calls = []

    def _handle(self, kind, real, kw):
        call = Call(kind, kw)
        self.calls.append(call)
        k = len(self.calls) - 1
        if self.script is not None and k < len(self.script) and self.script[k] is not None:
            ans = self.script[k]
            if isinstance(ans, BaseException):
                call.raised = ans
                raise ans
            if callable(ans) and not isinstance(ans, scipy.optimize.OptimizeResult):
                ans = ans(call)
            call.result = ans
            return ans
        if not self.passthrough:
            raise RuntimeError("back-end call not scripted")
        try:
            call.result = real(**kw)
        except BaseException as ex:
            call.raised = ex
            raise
        return call.result

    def __enter__(self):
        self._old_min = _ss.minimize
        self._old_lp = scipy.optimize.linprog
        real_min, real_lp = self._old_min, self._old_lp

        def minimize(*a, **kw):
            if a:
                kw["fun"] = a[0]
                if len(a) > 1:
                    kw["x0"] = a[1]
            return self._handle("minimize", real_min, kw)

        def linprog(*a, **kw):
            if a:
                kw["c"] = a[0]
            return self._handle("linprog", real_lp, kw)

        _ss.minimize = minimize
        scipy.optimize.linprog = linprog
        return self

    def __exit__(self, *exc):
        _ss.minimize = self._old_min
        scipy.optimize.linprog = self._old_lp
        return False


def seams_pristine():
    """True when no seam is installed (asserted before every execution)."""
    return _ss.minimize is scipy.optimize.minimize and scipy.optimize.linprog.__module__.startswith("scipy.")


def result(x, fun=0.0, success=True, status=0, message="Optimization terminated successfully", nit=1, **kw):
    return scipy.optimize.OptimizeResult(x=np.asarray(x, dtype=float) if x is not None else None, fun=fun,
                                         success=success, status=status, message=message, nit=nit, **kw)
