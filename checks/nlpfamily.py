"""A family of small nonlinear problems (problem recipes) shared by C06, C07, C09, C18."""

from __future__ import annotations

from mc import problems as PR

X, Y = ("var", "x"), ("var", "y")
V2 = ("vvar", "v", 2)


def c(v):
    return ("c", v)


def sq(a):
    return ("bin", "**", a, c(2))


def add(*ts):
    r = ts[0]
    for t in ts[1:]:
        r = ("bin", "+", r, t)
    return r


def sub(a, b):
    return ("bin", "-", a, b)


def mul(a, b):
    return ("bin", "*", a, b)


OBJECTIVES = {
    "linear": add(X, mul(c(2), Y), c(1)),
    "convex-qp": add(sq(sub(X, c(1))), sq(sub(Y, c(2))), c(3)),
    "coupled-qp": add(sq(X), mul(X, Y), sq(Y), mul(c(-3), X)),
    "exp+qp": add(("un", "exp", mul(c(0.5), X)), sq(sub(X, c(2))), sq(Y)),
    "nonconvex-cubic": add(("bin", "**", X, c(3)), mul(c(-3), X), sq(Y)),
    "vector-qp": add(("dot", V2, V2), mul(c(-2), ("sum", V2)), c(1)),
    "cosh": add(("un", "cosh", sub(X, c(1))), ("un", "cosh", add(Y, c(0.5)))),
}
CONSTRAINTS = {
    "none": (),
    "active-ineq": (("cmp", ">=", add(X, Y), c(4)),),
    "inactive-ineq": (("cmp", "<=", add(X, Y), c(50)),),
    "equality": (("cmp", "==", sub(X, Y), c(0.5)),),
    "contradictory-linear": (("cmp", ">=", X, c(1)), ("cmp", "<=", X, c(0))),
    "contradictory-eq": (("cmp", "==", add(X, Y), c(1)), ("cmp", "==", add(X, Y), c(3))),
    "infeasible-nonlinear": (("cmp", "<=", add(sq(X), sq(Y)), c(-1)),),
    "nonlinear-active": (("cmp", "<=", add(sq(X), sq(Y)), c(1)),),
    "two-ineq": (("cmp", ">=", X, c(0.5)), ("cmp", "<=", add(X, mul(c(2), Y)), c(3))),
    # single-variable linear rows ("bound constraints") that are LOOSER than, or beyond, the declared bounds of the menus
    "loose-single-variable-rows": (("cmp", ">=", X, c(0.5)), ("cmp", "<=", Y, c(50)), ("cmp", ">=", mul(c(-2), Y), c(-100))),
    "single-variable-row-beyond-bound": (("cmp", ">=", X, c(6)),),
}
BOUNDS = {
    "none": (),
    "inactive-box": (("lb", -10), ("ub", 10)),
    "active-box": (("lb", 1.5), ("ub", 4)),
    "optimum-outside": (("lb", -5), ("ub", -1)),
    "infeasible-vs-constraint": (("lb", 0), ("ub", 1)),
    "lower-only-active": (("lb", 2.5),),
    "upper-only-outside": (("ub", -1),),
}
METHODS = ("auto", "SLSQP", "trust-constr", "L-BFGS-B", "TNC", "BFGS", "CG", "Newton-CG", "Nelder-Mead",
           "Powell", "COBYLA", "linprog", "highs")


def rename_for_vector(cons):
    """constraints written over x, y re-expressed over v[0], v[1] for the vector objective."""
    def sw(r):
        if r == X:
            return ("idx", V2, 0)
        if r == Y:
            return ("idx", V2, 1)
        if isinstance(r, tuple):
            return tuple(sw(t) if isinstance(t, tuple) else t for t in r)
        return r

    return tuple(sw(cn) for cn in cons)


def family(tier, objectives=None, methods=METHODS):
    idx = 0
    for on, obj in OBJECTIVES.items():
        if objectives and on not in objectives:
            continue
        for cn, cons in CONSTRAINTS.items():
            for bn, bm in BOUNDS.items():
                for sense in ("min",) if tier == "quick" else ("min", "max"):
                    if on == "vector-qp":
                        cs = rename_for_vector(cons)
                        attrs = (("v", bm),)
                    else:
                        cs = cons
                        attrs = (("x", bm), ("y", bm))
                    o = obj if sense == "min" else ("un", "neg", obj)
                    pr = PR.prob(sense, o, cs, attrs)
                    for m in methods:
                        yield idx, (on, cn, bn, sense), pr, m
                        idx += 1
