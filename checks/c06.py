"""C06  a solution reported OPTIMAL is feasible (real back-ends, and every environment answer)."""

from __future__ import annotations

import itertools
import warnings

from checks.common import Fails, Report, detuple, np
from checks import nlpfamily as N
from checks import lpfamily as F
from mc import problems as PR
from mc.minimise import size
from mc.seams import Seam, result

ID = "C06"
LEVEL = "model_checking"
RULE = (
    "Two exhaustive explorations of the real solve path.  E1 (real back-ends): states = problem recipes of the "
    "product {7 objective kinds} x {9 constraint sets incl. contradictory and infeasible ones} x {5 bounds menus} "
    "(x {min,max} thorough) plus the LP family, each solved with every method of {auto, SLSQP, trust-constr, "
    "L-BFGS-B, TNC, BFGS, CG, Newton-CG, Nelder-Mead, Powell, COBYLA, linprog, highs}.  E2 (environment answers): "
    "for representative problems the back-end seam returns every record of {success T/F} x {every termination "
    "message SciPy can produce for the method} x {returned point: strictly feasible, on the boundary, violating an "
    "inequality / equality / bound by 1e-9, 1e-3, 1}; deviation bound 2 (first answer for SLSQP, second for the "
    "trust-constr retry).  transitions = solves executed on the real code; an evaluation = one OPTIMAL result "
    "checked against every constraint and bound of the recipe (reference semantics).  Non-trivial = solve that "
    "returned OPTIMAL or whose scripted point is infeasible; distinct by (recipe, method, answer)."
)
ASSUMPTIONS = [
    "feasibility tolerance 1e-5*(1+|x|_1) (the code's own check is 1e-6+1e-6*max(1,|c|)); nothing is asserted between 1e-9 and 1e-3",
    "for linprog only consistent answers are scripted (success <=> status 0 with a feasible point)",
]
NSH = 48


def shards(tier, seed):
    return ([("E1", i, NSH) for i in range(NSH)] + [("E1LP", i, 8) for i in range(8)] + [("E2", i, 6) for i in range(6)]
            + [("E3", i, 8) for i in range(8)])


def e3_cases():
    """E3: the SECOND solve of one Problem object whose objective was replaced in between (other variable set of the
    same size, same set, or another sense) - the constraints stay the user's constraints."""
    a_, y_, z_, zz = ("var", "a"), ("var", "y"), ("var", "z"), ("var", "zz")
    sq, add, sub, mul, c = N.sq, N.add, N.sub, N.mul, N.c
    objs = {
        "O1(a,y,z)": add(sq(sub(a_, c(1))), sq(add(y_, c(1))), sq(sub(z_, c(2)))),
        "O2(y,z,zz)": add(sq(add(y_, c(1))), sq(sub(z_, c(2))), sq(sub(zz, c(1)))),
        "O3(a,y,z)": add(("un", "exp", mul(c(0.3), y_)), sq(add(z_, c(1))), sq(sub(a_, c(2)))),
        "O4(y,z)": add(sq(add(y_, c(2))), sq(add(z_, c(2)))),
    }
    cons = {
        "y>=2": (("cmp", ">=", y_, c(2)),),
        "y+z<=1": (("cmp", "<=", add(y_, z_), c(1)),),
        "y-z==0.5": (("cmp", "==", sub(y_, z_), c(0.5)),),
        "y^2+z^2<=1": (("cmp", "<=", add(sq(y_), sq(z_)), c(1)),),
        "y>=2,y+z<=3": (("cmp", ">=", y_, c(2)), ("cmp", "<=", add(y_, z_), c(3))),
    }
    attrs = tuple((nm, (("lb", -5), ("ub", 5))) for nm in ("a", "y", "z", "zz"))
    for (n1, o1), (n2, o2) in itertools.product(objs.items(), repeat=2):
        for cn, cs in cons.items():
            for m in ("auto", "SLSQP", "trust-constr", "COBYLA"):
                for s1, s2 in (("min", "min"),) if n1 != n2 else (("min", "max"), ("max", "min")):
                    o2s = o2 if s2 == "min" else ("un", "neg", o2)
                    o1s = o1 if s1 == "min" else ("un", "neg", o1)
                    yield (n1, s1, n2, s2, cn), PR.prob(s1, o1s, cs, attrs), PR.prob(s2, o2s, cs, attrs), m


def check_history(pr1, pr2, method, rep=None, want=None):
    fails = Fails(want)
    kw = {} if method == "auto" else {"method": method}
    try:
        P, b, _ = PR.build_problem(pr1)
        with warnings.catch_warnings():
            warnings.simplefilter("ignore")
            try:
                P.solve(**kw)
            except Exception:
                pass
            o = b.build(pr2[2])
            (P.minimize if pr2[1] == "min" else P.maximize)(o)
            sol = P.solve(**kw)
    except Exception as ex:
        if rep:
            rep.outcomes["raised:" + type(ex).__name__] += 1
        return fails
    if rep:
        rep.states += 1
        rep.transitions += 3
        rep.outcomes["status-after-replacement:" + sol.status.value] += 1
    if sol.status.value != "optimal":
        return fails
    worst, where = feasibility(pr2, sol.values)
    if rep:
        rep.evaluations += 1
        rep.nt((pr1, pr2, method))
    if worst > tol_for(sol.values):
        fails.add("optimal-but-infeasible:after-objective-replacement", method=method, violation=worst, where=where,
                  values=sol.values)
    return fails


def feasibility(pr, values):
    """max violation over constraints and bounds, computed from the recipe (not from optyx)."""
    worst, where = 0.0, None
    for sense, diff in PR.flat_constraints(pr):
        d, ok = PR.eval_scalar(diff, values)
        v = PR.violation_ref(sense, d) if ok else float("inf")
        if v > worst:
            worst, where = v, ("constraint", sense, diff)
    for nm in PR.problem_var_names(pr):
        lb, ub, _ = PR.declared_bounds(pr, nm)
        x = values.get(nm)
        if x is None:
            return float("inf"), ("missing", nm)
        if lb is not None and lb - x > worst:
            worst, where = lb - x, ("lb", nm)
        if ub is not None and x - ub > worst:
            worst, where = x - ub, ("ub", nm)
    return worst, where


def tol_for(values):
    return 1e-5 * (1.0 + sum(abs(v) for v in values.values()))


def check_real(pr, method, rep=None, want=None, resolve=False):
    fails = Fails(want)
    try:
        P, b, built = PR.build_problem(pr)
    except Exception as ex:
        fails.add("exception:build:" + type(ex).__name__, msg=str(ex)[:200])
        return fails
    if rep:
        rep.states += 1
        rep.transitions += 1 + size(pr[2])
    kw = {} if method == "auto" else {"method": method}
    try:
        sol = P.solve(**kw)
    except Exception as ex:
        if rep:
            rep.outcomes["raised:" + type(ex).__name__] += 1
        return fails          # raising is not "OPTIMAL"
    if rep:
        rep.outcomes["status:" + sol.status.value] += 1
    if sol.status.value != "optimal":
        return fails
    worst, where = feasibility(pr, sol.values)
    if rep:
        rep.evaluations += 1
        rep.nt((pr, method))
    if worst > tol_for(sol.values):
        fails.add("optimal-but-infeasible", method=method, violation=worst, where=where, values=sol.values,
                  message=sol.message[:100])
    if resolve and not fails:
        # the model is extracted / compiled AGAIN (caches dropped by re-installing the same objective): the first
        # solve must not have modified the model it read
        try:
            (P.minimize if pr[1] == "min" else P.maximize)(P.objective)
            sol2 = P.solve(**kw)
            if rep:
                rep.transitions += 2
            if sol2.status.value == "optimal":
                worst2, where2 = feasibility(pr, sol2.values)
                if rep:
                    rep.evaluations += 1
                if worst2 > tol_for(sol2.values):
                    fails.add("optimal-but-infeasible:second-solve-after-cache-drop", method=method, violation=worst2,
                              where=where2, values=sol2.values)
        except Exception:
            pass
    return fails


# ---- E2: environment answers ------------------------------------------------------------------

X, Y = N.X, N.Y
REP_EQ = PR.prob("min", N.OBJECTIVES["convex-qp"],
                 (("cmp", ">=", N.add(X, Y), N.c(4)), ("cmp", "==", N.sub(X, Y), N.c(0.5))), ())
REP_BD = PR.prob("min", N.OBJECTIVES["exp+qp"], (("cmp", ">=", N.add(X, Y), N.c(4)),),
                 (("x", (("lb", 0), ("ub", 10))), ("y", (("lb", 0), ("ub", 10)))))
REP_LP = PR.prob("max", N.add(X, N.mul(N.c(2), Y), N.c(1)), (("cmp", "<=", N.add(X, Y), N.c(4)),),
                 (("x", (("lb", 0), ("ub", 3))), ("y", (("lb", 0), ("ub", 3)))))
DELTAS = (1e-9, 1e-3, 1.0)


def points_eq():
    pts = [("strictly-feasible", (3.0, 2.5)), ("boundary", (2.25, 1.75))]
    for d in DELTAS:
        pts.append((f"ineq-violated-{d:g}", (2.25 - d / 2, 1.75 - d / 2)))
        pts.append((f"eq-off-{d:g}", (3.0 + d, 2.5)))
    return pts


def points_bd():
    pts = [("strictly-feasible", (3.0, 2.5)), ("on-bound", (0.0, 5.0))]
    # bound-violating answers are not scripted: every method driven in E2 takes bounds, and SciPy
    # guarantees such methods never return a point outside them (bounds dropped for the other
    # methods are covered by E1 with the real back-ends)
    for d in DELTAS:
        pts.append((f"ineq-violated-{d:g}", (2.0 - d, 2.0)))
    return pts


def messages_for(method):
    msgs = []
    try:
        if method == "SLSQP":
            from scipy.optimize import _slsqp_py as m

            tab = getattr(m, "exit_modes", None)
            if isinstance(tab, dict):
                msgs = list(tab.values())
        elif method == "trust-constr":
            from scipy.optimize._trustregion_constr import minimize_trustregion_constr as m

            msgs = list(getattr(m, "TERMINATION_MESSAGES", {}).values())
        elif method == "L-BFGS-B":
            from scipy.optimize import _lbfgsb_py as m

            for nm in ("status_messages", "task_messages"):
                t = getattr(m, nm, None)
                if isinstance(t, dict):
                    msgs += [str(v) for v in t.values()]
    except Exception:
        pass
    fallback = {
        "SLSQP": ["Optimization terminated successfully", "Positive directional derivative for linesearch",
                  "Iteration limit reached", "Inequality constraints incompatible",
                  "More equality constraints than independent variables", "Singular matrix C in LSQ subproblem",
                  "Singular matrix E in LSQ subproblem", "Rank-deficient equality constraint subproblem HFTI",
                  "More than 3*n iterations in LSQ subproblem", "Function evaluations required (g & c)",
                  "Gradient evaluation required (g & a)"],
        "trust-constr": ["The maximum number of function evaluations is exceeded.",
                         "`gtol` termination condition is satisfied.", "`xtol` termination condition is satisfied.",
                         "`callback` function requested termination."],
        "L-BFGS-B": ["CONVERGENCE: NORM OF PROJECTED GRADIENT <= PGTOL", "CONVERGENCE: RELATIVE REDUCTION OF F <= FACTR*EPSMCH",
                     "ABNORMAL ", "STOP: TOTAL NO. OF ITERATIONS REACHED LIMIT", "STOP: TOTAL NO. OF F,G EVALUATIONS EXCEEDS LIMIT"],
    }
    out = []
    for s in list(msgs) + fallback.get(method, []):
        s = str(s)
        if s not in out:
            out.append(s)
    return out


def e2_cases(tier):
    """(label, problem, method, script, scripted point dict of the *last* answer)."""
    for pname, pr, pts in (("eq", REP_EQ, points_eq()), ("bd", REP_BD, points_bd())):
        for method in ("SLSQP", "trust-constr", "L-BFGS-B", "auto"):
            m_msgs = messages_for("SLSQP" if method == "auto" else method)
            for success in (True, False):
                for msg in m_msgs:
                    for plab, pt in pts:
                        yield (pname, method, success, msg, plab), pr, method, [(pt, success, msg)]
        # two-answer sequences: SLSQP success with a violated point, then every trust-constr answer
        bad = [p for p in pts if "violated-1" in p[0] or "eq-off-1" in p[0]][:2]
        for (blab, bpt) in bad:
            for success in (True, False):
                for msg in messages_for("trust-constr"):
                    for plab, pt in pts:
                        yield (pname, "SLSQP->retry", success, msg, blab, plab), pr, "SLSQP", [
                            (bpt, True, "Optimization terminated successfully"), (pt, success, msg)]


def e2_lp_cases():
    feas = [("interior", (1.0, 1.0)), ("vertex", (1.0, 3.0))]
    infeas = [("ineq-violated", (3.0, 3.0)), ("bound-violated", (-1.0, 2.0)), ("none", None)]
    for method in ("auto", "linprog", "highs-ds"):
        for status in (0, 1, 2, 3, 4):
            pts = feas if status == 0 else feas + infeas
            for plab, pt in pts:
                yield ("lp", method, status, plab), REP_LP, method, (pt, status)


def check_env(label, pr, method, script, rep=None, want=None):
    fails = Fails(want)
    P, b, built = PR.build_problem(pr)
    names = PR.problem_var_names(pr)

    def mk(pt, success, msg):
        return lambda call: result(np.array(pt), fun=1.0, success=success, status=0 if success else 9, message=msg)

    try:
        with Seam(script=[mk(*a) for a in script], passthrough=False) as s:
            sol = P.solve(**({} if method == "auto" else {"method": method}))
    except Exception as ex:
        if rep:
            rep.outcomes["env-raised:" + type(ex).__name__] += 1
        return fails
    if rep:
        rep.states += 1
        rep.transitions += len(s.calls)
        rep.outcomes["env-status:" + sol.status.value] += 1
        rep.outcomes["env-backend-calls:%d" % len(s.calls)] += 1
    if sol.status.value != "optimal":
        return fails
    worst, where = feasibility(pr, sol.values)
    if rep:
        rep.evaluations += 1
        rep.nt(label)
    if worst > 1e-6:          # scripted points are either within 1e-9 or off by >= 1e-3
        fails.add("optimal-but-infeasible:environment", label=label, violation=worst, where=where, values=sol.values)
    return fails


def check_env_lp(label, pr, method, answer, rep=None, want=None):
    fails = Fails(want)
    P, b, built = PR.build_problem(pr)
    pt, status = answer
    msgs = {0: "Optimization terminated successfully.", 1: "Iteration limit reached.", 2: "The problem is infeasible.",
            3: "The problem is unbounded.", 4: "Numerical difficulties encountered."}

    def ans(call):
        return result(None if pt is None else np.array(pt), fun=None if pt is None else 1.0, success=(status == 0),
                      status=status, message=msgs[status])

    try:
        with Seam(script=[ans], passthrough=False) as s:
            sol = P.solve(**({} if method == "auto" else {"method": method}))
    except Exception as ex:
        if rep:
            rep.outcomes["env-raised:" + type(ex).__name__] += 1
        return fails
    if rep:
        rep.states += 1
        rep.transitions += len(s.calls)
        rep.outcomes["env-lp-status:" + sol.status.value] += 1
        rep.evaluations += 1
        rep.nt(label)
    if sol.status.value == "optimal" and status != 0:
        fails.add("optimal-for-unsuccessful-linprog-answer", label=label, linprog_status=status)
    if sol.status.value == "optimal":
        worst, where = feasibility(pr, sol.values)
        if worst > 1e-6:
            fails.add("optimal-but-infeasible:environment", label=label, violation=worst, where=where)
    return fails


def explore(item, tier, seed):
    kind, i, n = item
    rep = Report()

    def record(fs, case):
        seen = set()
        for k, d in fs:
            if k not in seen:
                seen.add(k)
                rep.violation(k, case, **d)

    if kind == "E1":
        for idx, lab, pr, m in N.family(tier):
            if idx % n == i:
                record(check_real(pr, m, rep), {"mode": "real", "label": lab, "problem": pr, "method": m})
                if rep.states % 97 == 1:
                    rep.sample({"label": lab, "method": m})
    elif kind == "E1LP":
        import itertools as _it

        for idx, lab, pr, m in _it.chain(F.family("quick"), F.view_family()):
            if idx % (n * (1 if tier == "thorough" else 4)) == i:
                record(check_real(pr, m, rep, resolve=True), {"mode": "real", "label": lab, "problem": pr, "method": m, "resolve": True})
        for idx, lab, pr, m in F.scaled_family():
            if idx % n == i:
                record(check_real(pr, m, rep, resolve=True), {"mode": "real", "label": lab, "problem": pr, "method": m, "resolve": True})
    elif kind == "E3":
        for k, (lab, pr1, pr2, m) in enumerate(e3_cases()):
            if k % n == i:
                record(check_history(pr1, pr2, m, rep), {"mode": "history", "label": lab, "problem": pr2, "first": pr1, "method": m})
    else:
        k = 0
        for lab, pr, m, script in e2_cases(tier):
            if k % n == i:
                record(check_env(lab, pr, m, script, rep), {"mode": "env", "label": lab, "problem": pr, "method": m,
                                                            "script": script})
                if rep.states % 499 == 1:
                    rep.sample({"environment-answer": lab})
            k += 1
        for lab, pr, m, answer in e2_lp_cases():
            if k % n == i:
                record(check_env_lp(lab, pr, m, answer, rep), {"mode": "envlp", "label": lab, "problem": pr,
                                                                "method": m, "answer": answer})
            k += 1
    return rep


def culprit(v):
    case = v["case"]
    if case["mode"] == "history":
        return {"kind": v["kind"], "method": case["method"], "history": list(case["label"])}
    if case["mode"] == "real":
        lab = case["label"]
        return {"kind": v["kind"], "method": case["method"], "family": lab[:3] if len(lab) == 4 else "lp"}
    lab = case["label"]
    return {"kind": v["kind"], "method": case["method"], "answer": [lab[0]] + list(lab[2:])}


def replay(art):
    case = art["violation"]["case"]
    pr = detuple(case["problem"])
    if case["mode"] == "history":
        fs = check_history(detuple(case["first"]), pr, case["method"], None, want=art["culprit"]["kind"])
    elif case["mode"] == "real":
        fs = check_real(pr, case["method"], None, want=art["culprit"]["kind"], resolve=bool(case.get("resolve")))
    elif case["mode"] == "env":
        fs = check_env(detuple(case["label"]), pr, case["method"], detuple(case["script"]), None, want=art["culprit"]["kind"])
    else:
        fs = check_env_lp(detuple(case["label"]), pr, case["method"], detuple(case["answer"]), None, want=art["culprit"]["kind"])
    return [{"kind": k, "detail": d} for k, d in fs]
