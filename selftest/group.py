import sys, json, collections
def sig(r, depth=0):
    if not isinstance(r, list) or not r or not isinstance(r[0], str): return '#'
    h=r[0]
    if h in ('arr','lst','arr2','lst2'): return h
    if h in ('c','k','C'): return 'num'
    if h=='vvar': return 'v'
    if h=='mvar': return 'S' if r[4] else 'M'
    if depth>=2: return h
    return h+'('+','.join(sig(x,depth+1) for x in r[1:] if isinstance(x,list) and x and isinstance(x[0],str))+')'
cnt=collections.Counter(); ex={}
for line in sys.stdin:
    if 'culprit:' not in line: continue
    c=json.loads(line.split('culprit:',1)[1])
    k=(c['kind'], sig(c.get('recipe')))
    cnt[k]+=1; ex.setdefault(k, c.get('recipe'))
for k,v in sorted(cnt.items(), key=lambda t:(t[0][0],-t[1])): print(v, k[0], k[1], '   e.g.', json.dumps(ex[k])[:int(sys.argv[1]) if len(sys.argv)>1 else 110])
