"""Exploration engine: sharded exhaustive enumeration, statistics, evidence, findings, replay.

A check module (checks/cNN.py) provides

    ID, LEVEL, RULE, ASSUMPTIONS
    shards(tier, seed)            -> list of picklable work items (each explored completely)
    explore(item, tier, seed)     -> Report   (runs inside a worker process)
    culprit(violation)            -> minimised, JSON-able identification of the failing case
    replay(case)                  -> list of violations (empty = the recorded case now passes)

The engine runs every work item in a pool of forked workers, merges the reports, matches
violations against /verif/known_findings.json, writes replay artefacts and the evidence
file, and turns the outcome into the exit code / VIOLATION / KNOWN-FINDING lines.
"""

from __future__ import annotations

import hashlib
import json
import multiprocessing as mp
import os
import sys
import time
import traceback
from collections import Counter

ROOT = os.path.dirname(os.path.dirname(os.path.abspath(__file__)))
SRC = os.environ.get("OPTYX_SRC", "/repo/src")
NPROC = int(os.environ.get("VERIF_JOBS", "16"))


def jsonable(x):
    import numpy as np

    if isinstance(x, dict):
        return {str(k): jsonable(v) for k, v in x.items()}
    if isinstance(x, (list, tuple)):
        return [jsonable(v) for v in x]
    if isinstance(x, (np.floating, float)):
        f = float(x)
        return f if f == f and abs(f) != float("inf") else repr(f)
    if isinstance(x, (np.integer,)):
        return int(x)
    if isinstance(x, np.ndarray):
        return jsonable(x.tolist())
    if isinstance(x, (str, int, bool)) or x is None:
        return x
    return repr(x)


def canon(x):
    return json.dumps(jsonable(x), sort_keys=True, separators=(",", ":"))


def detuple(x):
    """JSON lists back to the tuples recipes are made of."""
    if isinstance(x, list):
        return tuple(detuple(v) for v in x)
    return x


_CURRENT_REPORT = [None]


class ItemTimeout(BaseException):
    """a work item exceeded its wall-clock budget"""


def item_timeout(tier):
    """Per-item wall-clock budget in seconds (a changed optyx can make single items pathologically slow: the check then
    reports what it found and says that it is incomplete instead of running for hours)."""
    env = os.environ.get("VERIF_ITEM_TIMEOUT")
    if env:
        return int(env)
    return 1500 if tier == "quick" else 6 * 3600


class Report:
    """What one work item explored.  All counters are measured, never constants."""

    def __init__(self):
        _CURRENT_REPORT[0] = self  # the report of the running work item (kept when the item is cut off, see _run_item)
        self.states = 0            # distinct programs / model states / histories visited
        self.transitions = 0       # builder-op applications / operations executed on the real code
        self.evaluations = 0       # individual observations compared with the oracle
        self.nontrivial = set()    # canonical keys of distinct non-trivial cases (merged as a set of hashes)
        self.outcomes = Counter()  # outcome classes (paths, statuses, exception kinds ...)
        self.skipped = Counter()   # out_of_domain / non_regular / rejected_at_build / ...
        self.violations = []       # dicts: kind, case, detail
        self.samples = []
        self.caps = []
        self.max_depth = 0
        self.extra = {}

    def nt(self, key):
        self.nontrivial.add(hashlib.blake2b(canon(key).encode(), digest_size=8).digest())

    def violation(self, kind, case, **detail):
        if len(self.violations) < 400:
            self.violations.append({"kind": kind, "case": jsonable(case), "detail": jsonable(detail)})
        self.outcomes["VIOLATION:" + kind] += 1

    def sample(self, s, cap=4):
        if len(self.samples) < cap:
            self.samples.append(jsonable(s))

    def merge(self, o):
        self.states += o.states
        self.transitions += o.transitions
        self.evaluations += o.evaluations
        self.nontrivial |= o.nontrivial
        self.outcomes.update(o.outcomes)
        self.skipped.update(o.skipped)
        self.violations.extend(o.violations)
        for s in o.samples:
            self.sample(s, cap=12)
        self.caps.extend(o.caps)
        self.max_depth = max(self.max_depth, o.max_depth)
        for k, v in o.extra.items():
            if isinstance(v, (int, float)) and isinstance(self.extra.get(k, 0), (int, float)):
                self.extra[k] = self.extra.get(k, 0) + v
            else:
                self.extra[k] = v


def _init_worker():
    os.environ["OMP_NUM_THREADS"] = "1"
    import warnings

    warnings.simplefilter("ignore")
    import numpy as np

    np.seterr(all="ignore")
    try:        # diagnostics: `kill -USR1 <worker pid>` prints the worker's Python stack to stderr
        import faulthandler
        import signal

        faulthandler.register(signal.SIGUSR1, all_threads=False)
    except Exception:
        pass


def _run_item(args):
    modname, item, tier, seed = args
    import importlib

    mod = importlib.import_module(modname)
    t0 = time.time()
    import signal

    def _cut(signum, frame):
        raise ItemTimeout()

    limit = item_timeout(tier)
    left = float(os.environ.get("VERIF_DEADLINE", "inf")) - time.time()
    if left <= 1:
        rep = Report()
        rep.extra["item_timeouts"] = [f"{item!r} not started (the check's total wall-clock budget was used up)"]
        rep.caps.append({"what": "work item not started: total wall-clock budget of the check used up", "item": repr(item)})
        return rep
    limit = int(min(limit, left)) + 1
    _CURRENT_REPORT[0] = None
    try:
        old_handler = signal.signal(signal.SIGALRM, _cut)
        signal.alarm(limit)
    except Exception:
        old_handler = None
    try:
        rep = mod.explore(item, tier, seed)
    except ItemTimeout:
        rep = _CURRENT_REPORT[0] or Report()        # what the item had covered (and found) when it was cut off
        rep.extra.setdefault("item_timeouts", []).append(f"{item!r} after {limit}s")
        rep.caps.append({"what": "work item cut off by its wall-clock budget", "item": repr(item), "seconds": limit})
    except BaseException:
        rep = Report()
        rep.extra["harness_error"] = traceback.format_exc()
    finally:
        try:
            signal.alarm(0)
            if old_handler is not None:
                signal.signal(signal.SIGALRM, old_handler)
        except Exception:
            pass
    rep.extra.setdefault("wall_items", 0)
    rep.extra["wall_items"] += time.time() - t0
    return rep


def assert_source():
    import optyx

    f = os.path.realpath(optyx.__file__)
    if not f.startswith(os.path.realpath(SRC)):
        print(f"HARNESS-ERROR optyx imported from {f}, expected under {SRC}")
        sys.exit(2)


def load_known(pid):
    p = os.path.join(ROOT, "known_findings.json")
    if not os.path.exists(p):
        return []
    with open(p) as fh:
        data = json.load(fh)
    return [f for f in data.get("findings", []) if f.get("property") == pid and f.get("status") == "known"]


def run_check(mod, tier, seed, jobs=None):
    """Run one property check; returns exit code."""
    pid = mod.ID
    t0 = time.time()
    assert_source()
    items = mod.shards(tier, seed)
    jobs = jobs or NPROC
    # total wall-clock budget of one check (inherited by the forked workers)
    budget_s = int(os.environ.get("VERIF_CHECK_BUDGET", "2700" if tier == "quick" else str(12 * 3600)))
    os.environ["VERIF_DEADLINE"] = str(t0 + budget_s)
    total = Report()
    harness_errors = []
    if jobs <= 1 or len(items) <= 1 or getattr(mod, "SERIAL", False):
        _init_worker()
        reps = [_run_item((mod.__name__, it, tier, seed)) for it in items]
    else:
        ctx = mp.get_context("fork")
        with ctx.Pool(min(jobs, len(items)), initializer=_init_worker) as pool:
            reps = pool.map(_run_item, [(mod.__name__, it, tier, seed) for it in items], chunksize=1)
    timeouts = []
    for r in reps:
        if "harness_error" in r.extra:
            harness_errors.append(r.extra.pop("harness_error"))
        timeouts += r.extra.pop("item_timeouts", [])
        total.merge(r)
    if harness_errors:
        print("HARNESS-ERROR in", pid)
        print(harness_errors[0])
        return 2

    # ---- findings
    known = load_known(pid)
    known_keys = {canon(k["culprit"]): k for k in known}
    groups = {}
    # minimisation can be expensive (history replays, forked executions): when no finding is recorded for this
    # property every violation is new anyway, so only the first ones of each kind are minimised
    budget = None if known else int(os.environ.get("VERIF_MINIMISE", "12"))
    per_kind = Counter()
    for v in total.violations:
        per_kind[v["kind"]] += 1
        if budget is not None and per_kind[v["kind"]] > budget:
            c = {"kind": v["kind"], "unminimised": True, "note": "further raw violations of this kind"}
            groups.setdefault(canon(c), (c, v))
            continue
        try:
            c = mod.culprit(v)
        except Exception:
            c = {"kind": v["kind"], "case": v["case"], "unminimised": True}
        groups.setdefault(canon(c), (c, v))
    unknown = []
    matched = []
    for key, (c, v) in sorted(groups.items()):
        if key in known_keys:
            matched.append(known_keys[key])
        else:
            unknown.append((c, v))
    for k in {canon(m): m for m in matched}.values():
        print(f"KNOWN-FINDING: property={pid} {k.get('what', canon(k['culprit']))}")
    if os.path.realpath(SRC) == os.path.realpath("/repo/src"):
        rdir = os.path.join(ROOT, "replays", pid)
    else:
        rdir = os.path.join(os.path.dirname(os.path.realpath(SRC)), "verif-replays", pid)
    lines = []
    for c, v in unknown[: int(os.environ.get("VERIF_MAXSHOW", "25"))]:
        os.makedirs(rdir, exist_ok=True)
        sha = hashlib.sha1(canon(c).encode()).hexdigest()[:12]
        path = os.path.join(rdir, sha + ".json")
        with open(path, "w") as fh:
            json.dump({"property": pid, "tier": tier, "seed": seed, "culprit": jsonable(c),
                       "violation": v, "source_root": SRC}, fh, indent=1, sort_keys=True)
        lines.append(f"VIOLATION property={pid} replay={path}")
        print(f"  culprit: {canon(c)[:600]}")
        print(f"  detail : {canon(v['detail'])[:600]}")
    for ln in lines:
        print(ln)

    # ---- evidence
    wall = time.time() - t0
    cov = {
        "states": total.states,
        "transitions": total.transitions,
        "traces_validated_against_impl": total.transitions,
        "samples": total.samples[:12] or ["(no sample recorded)"],
        "evaluations": total.evaluations,
        "distinct_nontrivial": len(total.nontrivial),
        "rule": mod.RULE,
        "exhaustive": not total.caps,
        "caps_hit": total.caps,
        "max_depth": total.max_depth,
        "outcome_classes": dict(sorted(total.outcomes.items())),
        "distinct_outcome_classes": len(total.outcomes),
        "skipped": dict(total.skipped),
        "work_items": len(items),
        "known_findings_matched": len(matched),
        "violating_cases_raw": len(total.violations),
        "distinct_culprits": len(groups),
        "source_root": SRC,
    }
    cov.update({k: v for k, v in total.extra.items() if k not in cov})
    ev = {
        "property_id": pid,
        "tier": tier,
        "seed": int(seed),
        "level": mod.LEVEL,
        "coverage": jsonable(cov),
        "assumptions": list(mod.ASSUMPTIONS),
        "wall_s": round(wall, 3),
        "violations": len(unknown),
    }
    # /verif/evidence describes /repo only: a run against another source root (mutation / seeded-change harness)
    # writes its evidence elsewhere
    if os.path.realpath(SRC) == os.path.realpath("/repo/src"):
        edir = os.path.join(ROOT, "evidence")
    else:
        edir = os.environ.get("VERIF_EVIDENCE_DIR") or os.path.join(os.path.dirname(os.path.realpath(SRC)), "verif-evidence")
    os.makedirs(edir, exist_ok=True)
    with open(os.path.join(edir, pid + ".json"), "w") as fh:
        json.dump(ev, fh, indent=1, sort_keys=True)
    print(
        f"{pid} tier={tier} seed={seed} states={total.states} transitions={total.transitions} "
        f"evaluations={total.evaluations} distinct_nontrivial={len(total.nontrivial)} "
        f"outcome_classes={len(total.outcomes)} raw_violations={len(total.violations)} "
        f"culprits={len(groups)} known={len(matched)} new={len(unknown)} wall={wall:.1f}s"
    )
    if timeouts:
        # violations found before the cut-off are reported above (exit 1); without any the run proves nothing
        print(f"INCOMPLETE property={pid}: {len(timeouts)} work item(s) cut off by the wall-clock budget: " + "; ".join(timeouts[:4]))
        return 1 if unknown else 2
    return 1 if unknown else 0


def run_replay(mod, path):
    assert_source()
    with open(path) as fh:
        art = json.load(fh)
    _init_worker()
    vs = mod.replay(art)
    if vs:
        for v in vs[:5]:
            print("  still failing:", canon(v)[:800])
        print(f"VIOLATION property={mod.ID} replay={path}")
        return 1
    print(f"{mod.ID} replay {path}: passes")
    return 0
