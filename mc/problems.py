"""Problem recipes: ('prob', sense, objective, (constraints...), attrs) and their reference semantics.

A constraint recipe is ('cmp', sense, lhs, rhs) with sense in '<=', '>=', '=='; it is built with the
Python spelling `lhs <= rhs`, `lhs >= rhs`, `lhs.eq(rhs)` (for a non-optyx lhs and '==' the operands
are swapped: `rhs.eq(lhs)`), so reflected comparisons are exercised when lhs is a plain number/array.
attrs = ((name, (('lb', v), ('ub', v), ('domain', d))), ...) for scalar / vector / matrix names.
"""

from __future__ import annotations

import numpy as np

from mc.build import Builder
from mc.interp import kind_of, var_names, param_names, natural_key
from mc.oracle import ref_value, ref_poly


def prob(sense, obj, cons=(), attrs=(), params=()):
    return ("prob", sense, obj, tuple(cons), tuple(attrs), tuple(params))


def attrs_dict(pr):
    return {name: dict(kv) for name, kv in pr[4]}


def params_dict(pr):
    return dict(pr[5]) if len(pr) > 5 else {}


def _is_optyx(o):
    from optyx.core.expressions import Expression
    from optyx.core.vectors import VectorVariable, VectorExpression
    from optyx.core.matrices import MatrixVariable, MatrixExpression

    return isinstance(o, (Expression, VectorVariable, VectorExpression, MatrixVariable, MatrixExpression))


def build_constraint(b, c):
    _, sense, l, r = c
    lo, ro = b.build(l), b.build(r)
    if sense == "<=":
        return lo <= ro
    if sense == ">=":
        return lo >= ro
    if _is_optyx(lo):
        return lo.eq(ro)
    return ro.eq(lo)


def build_problem(pr, builder=None):
    """-> (Problem, Builder, list of (constraint recipe, built Constraint or list))."""
    from optyx import Problem

    _, sense, obj, cons, attrs, *rest = pr
    b = builder or Builder(params=params_dict(pr), var_attrs=attrs_dict(pr))
    P = Problem()
    built = []
    o = b.build(obj)
    if sense == "min":
        P.minimize(o)
    else:
        P.maximize(o)
    for c in cons:
        k = build_constraint(b, c)
        built.append((c, k))
        P.subject_to(k)
    return P, b, built


def problem_var_names(pr):
    names = set(var_names(pr[2])) if kind_of(pr[2]) == "s" else set(var_names(pr[2]))
    for c in pr[3]:
        names |= set(var_names(c[2])) | set(var_names(c[3]))
    return sorted(names, key=natural_key)


def declared_bounds(pr, name):
    """(lb, ub, domain) the user declared for scalar variable `name` (container attrs apply elementwise)."""
    a = attrs_dict(pr)
    base = name.split("[")[0]
    d = a.get(name, a.get(base, {}))
    lb, ub, dom = d.get("lb"), d.get("ub"), d.get("domain", "continuous")
    if dom == "binary":
        lb, ub = 0.0, 1.0
    return lb, ub, dom


def constraint_elements(c):
    """Flatten ('cmp', s, l, r) into scalar difference recipes lhs_k - rhs_k in row-major order."""
    _, sense, l, r = c
    from mc.interp import Interp

    class _Shape:
        ok = True

        def const(self, c_):
            return 0

        var = param = const

        def add(self, a, b):
            return 0

        sub = mul = div = pow = add

        def neg(self, a):
            return 0

        def powc(self, a, k):
            return 0

        def un(self, f, a):
            return 0

    def shape(x):
        v = Interp(_Shape()).ev(x)
        k = kind_of(x)
        if k == "s":
            return ()
        if k == "v":
            return (len(v),)
        return (len(v), len(v[0]))

    sl, sr = shape(l), shape(r)
    shp = sl or sr
    if sl and sr and sl != sr:
        from mc.interp import ShapeError

        raise ShapeError("constraint shapes")

    def elem(x, s, idx):
        if not s:
            return x
        if len(s) == 1:
            return ("idx", x, idx[0])
        return ("midx", x, idx[0], idx[1])

    out = []
    if not shp:
        out.append(("bin", "-", l, r))
    elif len(shp) == 1:
        for i in range(shp[0]):
            out.append(("bin", "-", elem(l, sl, (i,)), elem(r, sr, (i,))))
    else:
        for i in range(shp[0]):
            for j in range(shp[1]):
                out.append(("bin", "-", elem(l, sl, (i, j)), elem(r, sr, (i, j))))
    return sense, out


def flat_constraints(pr):
    """[(sense, scalar difference recipe)] for the whole problem in the order constraints are added."""
    out = []
    for c in pr[3]:
        s, els = constraint_elements(c)
        out += [(s, e) for e in els]
    return out


def violation_ref(sense, diff):
    if sense == "<=":
        return max(0.0, diff)
    if sense == ">=":
        return max(0.0, -diff)
    return abs(diff)


def affine_of(r, names, params=None):
    """(coefficient list aligned with names, constant) of an affine scalar recipe, or None."""
    p = ref_poly(r, names, params or {})
    if p is None or p.degree() > 1:
        return None
    n = len(names)
    coef = []
    for i in range(n):
        m = [0] * n
        m[i] = 1
        coef.append(float(p.coeff(m)))
    return coef, float(p.coeff([0] * n))


def eval_scalar(r, point, params=None):
    pts = {k: np.array([v]) for k, v in point.items()}
    va, ok, err = ref_value(r, pts, 1, params or {})
    return float(va[0]), bool(ok[0])
