"""recipe -> optyx object, through the public builder API only (the thing under test).

`Builder` keeps one registry of *named* objects (Variable, Parameter, VectorVariable,
MatrixVariable) so that a name always denotes the same Python object inside one build,
and memoises vector/matrix sub-recipes so that `('dot', v, v)` hands the *same* view
object to both operands.  `('fresh', tag, r)` forces a distinct object with the same
denotation (two different views of one vector).
"""

from __future__ import annotations

import numpy as np

import optyx
from optyx.core import vectors as _vec
from optyx.core import matrices as _mat
from optyx.core.expressions import Constant, Variable
from optyx.core.parameters import Parameter

from mc.interp import kind_of

_FUNCS = {
    "abs": optyx.abs_, "sin": optyx.sin, "cos": optyx.cos, "tan": optyx.tan,
    "exp": optyx.exp, "log": optyx.log, "log2": optyx.log2, "log10": optyx.log10,
    "sqrt": optyx.sqrt, "tanh": optyx.tanh, "sinh": optyx.sinh, "cosh": optyx.cosh,
    "asin": optyx.asin, "acos": optyx.acos, "atan": optyx.atan, "asinh": optyx.asinh,
    "acosh": optyx.acosh, "atanh": optyx.atanh,
}


def _apply(op, a, b):
    if op == "+":
        return a + b
    if op == "-":
        return a - b
    if op == "*":
        return a * b
    if op == "/":
        return a / b
    if op == "**":
        return a ** b
    raise KeyError(op)


class Builder:
    def __init__(self, params=None, var_attrs=None, share_scalars=False, duplicate_variables=False):
        self.params = dict(params or {})      # name -> initial value
        self.var_attrs = var_attrs or {}      # name -> dict(lb=, ub=, domain=)
        self.named = {}
        self.memo = {}
        self.share_scalars = share_scalars
        # "factory style": every mention of a scalar variable creates a NEW Variable object of that name
        # (optyx identifies variables by name; the same declaration may legitimately exist as several objects)
        self.duplicate_variables = duplicate_variables

    # -- named objects
    def variable(self, name):
        if self.duplicate_variables:
            return Variable(name, **self.var_attrs.get(name, {}))
        if ("var", name) not in self.named:
            self.named[("var", name)] = Variable(name, **self.var_attrs.get(name, {}))
        return self.named[("var", name)]

    def parameter(self, name):
        if ("par", name) not in self.named:
            self.named[("par", name)] = Parameter(name, self.params[name])
        return self.named[("par", name)]

    def vector(self, name, n):
        key = ("vvar", name, n)
        if key not in self.named:
            self.named[key] = optyx.VectorVariable(name, n, **self.var_attrs.get(name, {}))
        return self.named[key]

    def matrix(self, name, r, c, sym):
        key = ("mvar", name, r, c, sym)
        if key not in self.named:
            self.named[key] = optyx.MatrixVariable(
                name, r, c, symmetric=sym, **self.var_attrs.get(name, {})
            )
        return self.named[key]

    # -- entry
    def build(self, r):
        h = r[0]
        if h == "fresh":
            return getattr(self, "_" + r[2][0])(r[2])
        share = self.share_scalars or kind_of(r) != "s"
        if share and r in self.memo:
            return self.memo[r]
        obj = getattr(self, "_" + h)(r)
        if share:
            self.memo[r] = obj
        return obj

    # -- scalars
    def _var(self, r):
        return self.variable(r[1])

    def _c(self, r):
        return r[1]

    def _C(self, r):
        return Constant(r[1])

    def _k(self, r):
        v, sp = r[1], r[2]
        if sp == "np64":
            return np.float64(v)
        if sp == "npi":
            return np.int64(v)
        if sp == "np32":
            return np.float32(v)
        if sp == "a0":
            return np.array(float(v))
        if sp == "bool":
            return bool(v)
        raise KeyError(sp)

    def _ka(self, r):
        """multi-element array constant (builder-only head; checks expand it component-wise): raw ndarray or Constant(ndarray)"""
        a = np.array([float(v) for v in r[1]])
        return Constant(a) if r[2] == "Const" else a

    def _par(self, r):
        return self.parameter(r[1])

    def _bin(self, r):
        return _apply(r[1], self.build(r[2]), self.build(r[3]))

    def _un(self, r):
        a = self.build(r[2])
        if r[1] == "neg":
            return -a
        return _FUNCS[r[1]](a)

    def _idx(self, r):
        return self.build(r[1])[r[2]]

    def _midx(self, r):
        return self.build(r[1])[r[2], r[3]]

    def _sum(self, r):
        return self.build(r[1]).sum()

    def _vsum(self, r):
        return _vec.vector_sum(self.build(r[1]))

    def _psum(self, r):
        return sum(self.build(r[1]))

    def _dot(self, r):
        return self.build(r[1]).dot(self.build(r[2]))

    def _mm(self, r):
        return self.build(r[1]) @ self.build(r[2])

    def _norm(self, r):
        v = self.build(r[1])
        style = r[3] if len(r) > 3 else "f"
        return _vec.norm(v, r[2]) if style == "f" else v.norm(r[2])

    def _qform(self, r):
        return optyx.quadratic_form(self.build(r[1]), self.build(r[2]))

    def _QF(self, r):
        return optyx.QuadraticForm(self.build(r[1]), self.build(r[2]))

    def _LC(self, r):
        return _vec.LinearCombination(self.build(r[1]), self.build(r[2]))

    def _msum(self, r):
        return self.build(r[1]).sum()

    def _trace(self, r):
        m = self.build(r[1])
        style = r[2] if len(r) > 2 else "f"
        return optyx.trace(m) if style == "f" else m.trace()

    def _frob(self, r):
        return optyx.frobenius_norm(self.build(r[1]))

    # -- vectors
    def _vvar(self, r):
        return self.vector(r[1], r[2])

    def _arr(self, r):
        a = np.array(r[1], dtype=float)
        layout = r[2] if len(r) > 2 else "C"
        if layout == "strided":
            big = np.zeros(a.size * 2)
            big[::2] = a
            return big[::2]
        if layout == "reversed-view":
            return np.array(a[::-1])[::-1]
        if layout == "int":
            return np.array(r[1])              # integer dtype when the data are integers
        if layout in ("int32", "uint8", "bool", "float32"):
            return np.array(r[1], dtype=layout)   # the data must be exactly representable in that dtype
        return a

    def _lst(self, r):
        return list(r[1])

    def _cvec(self, r):
        """an expression vector whose elements are Constants (built through the public VectorExpression class)"""
        from optyx.core.vectors import VectorExpression

        return VectorExpression([Constant(float(v)) for v in r[1]])

    def _pvec(self, r):
        """an expression vector whose elements are scalar Parameters only (no decision variables)"""
        from optyx.core.vectors import VectorExpression

        return VectorExpression([self.parameter(n) for n in r[1]])

    def _slice(self, r):
        return self.build(r[1])[slice(r[2], r[3], r[4])]

    def _row(self, r):
        return self.build(r[1])[r[2], slice(r[3], r[4], r[5])]

    def _col(self, r):
        return self.build(r[1])[slice(r[2], r[3], r[4]), r[5]]

    def _diag(self, r):
        m = self.build(r[1])
        style = r[2] if len(r) > 2 else "f"
        return optyx.diag(m) if style == "f" else m.diagonal()

    def _vbin(self, r):
        return _apply(r[1], self.build(r[2]), self.build(r[3]))

    def _rvbin(self, r):
        return _apply(r[1], self.build(r[2]), self.build(r[3]))

    def _vneg(self, r):
        return -self.build(r[1])

    def _vpow(self, r):
        return self.build(r[1]) ** r[2]

    def _vun(self, r):
        return _FUNCS[r[1]](self.build(r[2]))

    def _mv(self, r):
        return self.build(r[1]) @ self.build(r[2])

    def _matmulf(self, r):
        return optyx.matmul(self.build(r[1]), self.build(r[2]))

    _Mv = _mv

    # -- matrices
    def _mvar(self, r):
        return self.matrix(r[1], r[2], r[3], r[4])

    def _arr2(self, r):
        a = np.array(r[1], dtype=float)
        layout = r[2] if len(r) > 2 else "C"
        if layout == "F":
            return np.asfortranarray(a)
        if layout == "T":                      # transposed view of the transposed data: same values, F-ordered view
            return np.array(a.T, order="C").T
        if layout == "strided":                # non-contiguous view into a larger buffer
            big = np.zeros((a.shape[0] * 2, a.shape[1] * 2))
            big[::2, ::2] = a
            return big[::2, ::2]
        if layout == "rev":                    # view with negative strides in both axes
            return np.array(a[::-1, ::-1])[::-1, ::-1]
        if layout == "int":
            return np.array(r[1])
        if layout == "bool":
            return np.array(r[1], dtype=bool)
        return a

    def _lst2(self, r):
        return [list(row) for row in r[1]]

    def _T(self, r):
        return self.build(r[1]).T

    def _sub(self, r):
        rs = r[6] if len(r) > 6 else None
        cs = r[7] if len(r) > 7 else None
        return self.build(r[1])[slice(r[2], r[3], rs), slice(r[4], r[5], cs)]

    def _mbin(self, r):
        return _apply(r[1], self.build(r[2]), self.build(r[3]))

    _rmbin = _mbin

    def _mneg(self, r):
        return -self.build(r[1])

    def _diagm(self, r):
        return optyx.diag_matrix(self.build(r[1]))

    # -- helpers
    def variables_for(self, names):
        """Variable objects for an ordered list of scalar names (creating foreign ones)."""
        byname = {}
        for key, obj in self.named.items():
            if key[0] == "var":
                byname[obj.name] = obj
            elif key[0] == "vvar":
                for v in obj._variables:
                    byname[v.name] = v
            elif key[0] == "mvar":
                for row in obj._variables:
                    for v in row:
                        byname[v.name] = v
        out = []
        for n in names:
            if n not in byname:
                byname[n] = self.variable(n)
            out.append(byname[n])
        return out


def evaluate_any(obj, values):
    """Evaluate a built scalar / vector / matrix object to float / 1-D / 2-D array."""
    from optyx.core.expressions import Expression

    if isinstance(obj, (_vec.VectorVariable,)):
        return np.array([v.evaluate(values) for v in obj._variables], dtype=float)
    if isinstance(obj, _mat.MatrixVariable):
        return np.array(
            [[v.evaluate(values) for v in row] for row in obj._variables], dtype=float
        )
    if isinstance(obj, (int, float, np.ndarray, np.generic, list)):
        return np.asarray(obj, dtype=float)
    out = obj.evaluate(values)
    if isinstance(obj, Expression) and not isinstance(
        obj, (_vec.ElementwisePower, _vec.ElementwiseUnary)
    ):
        return out
    return np.asarray(out, dtype=float)
