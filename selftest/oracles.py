"""Oracle self-test (runs in setup_cmd): the reference interpreters agree with finite differences."""
import sys
import numpy as np
from mc import layers as L
from mc.oracle import ref_jet, ref_value, grid_points, var_names


def main():
    bad = 0
    n = 0
    h = 2.0 ** -10
    for r in L.layer_A(L.LEAVES[4], maxdepth=1):
        names = var_names(r)
        if not names:
            continue
        pts, P = grid_points(names, 0, full=False)
        v, g, H, ok, reg, ev, eg, eH = ref_jet(r, names, pts, P, {"p": 0.75})
        for i, nm in enumerate(names):
            def f(t):
                q = dict(pts); q[nm] = pts[nm] + t
                return ref_value(r, q, P, {"p": 0.75})
            (fp, okp, _), (fm, okm, _) = f(h), f(-h)
            (fp2, okp2, _), (fm2, okm2, _) = f(2 * h), f(-2 * h)
            m = ok & reg & okp & okm & okp2 & okm2
            fd = (8 * (fp - fm) - (fp2 - fm2)) / (12 * h)
            fd2 = (-fp2 + 16 * fp - 30 * v + 16 * fm - fm2) / (12 * h * h)
            sc = 1 + np.abs(g[i]) + np.abs(v)
            b1 = m & (np.abs(fd - g[i]) > 1e-5 * sc * (1 + np.abs(H[i, i])))
            b2 = m & (np.abs(fd2 - H[i, i]) > 2e-3 * (1 + np.abs(H[i, i]) + np.abs(v)) )
            # ignore points next to a singularity (finite differences meaningless there)
            near = np.abs(H[i, i]) > 1e3
            b1 &= ~near; b2 &= ~near
            n += int(m.sum())
            if b1.any() or b2.any():
                bad += 1
                print("oracle mismatch", r, nm, fd[b1 | b2][:2], g[i][b1 | b2][:2], fd2[b1|b2][:2], H[i, i][b1 | b2][:2])
    print(f"oracle selftest: {n} point checks, {bad} mismatches")
    return 1 if bad else 0


if __name__ == "__main__":
    sys.exit(main())
