"""C07  reported objective value and variable values are self-consistent; handles retrieve the right entries."""

from __future__ import annotations

from checks.common import Fails, Report, detuple, np
from checks import lpfamily as F, nlpfamily as N
from mc import problems as PR
from mc.interp import element_names
from mc.minimise import size

ID = "C07"
LEVEL = "model_checking"
RULE = (
    "states = (problem recipe, method) pairs: the LP family of C08 (all spellings, constants, both orientations), "
    "the nonlinear family of C06 x {auto, SLSQP, trust-constr, L-BFGS-B, Nelder-Mead, BFGS, linprog} and handle "
    "models (size-11 vector whose natural order differs from lexicographic order, 2x3 matrix, symmetric 3x3 "
    "matrix, scalars x10/x9 and b-before-a) solved with auto/SLSQP/L-BFGS-B; transitions = solves on the real "
    "code + handle look-ups; an evaluation = one comparison: objective_value vs the recipe's objective evaluated "
    "by the reference interpreter at the returned values (every status that returns values, user orientation; first solve, a repeat on the warm object, and a solve after flipping the sense with the same objective object), "
    "key set of Solution.values vs the recipe's variables, and each entry of Solution[handle] (scalar, vector, "
    "stepped / reversed slices, matrix, transpose, symmetric, row, column, diagonal, sub-matrix, by name, .get "
    "default) vs Solution.values[name].  Non-trivial = solve that returned values and an objective value."
)
ASSUMPTIONS = ["objective tolerance 1e-9*(1+|value|); reference interpreter mc/interp.py"]
NSH = 48

V11 = ("vvar", "x", 11)
M23 = ("mvar", "A", 2, 3, False)
S33 = ("mvar", "S", 3, 3, True)
T11 = ("arr", tuple(float(i) - 3.0 for i in range(11)))
TM = ("arr2", ((1.0, -2.0, 0.5), (3.0, 0.25, -1.0)))
TS = ("arr2", ((1.0, 2.0, -1.0), (2.0, 0.5, 3.0), (-1.0, 3.0, -2.0)))


def handle_models():
    d = ("vbin", "-", V11, T11)
    yield ("vec11", PR.prob("min", ("bin", "+", ("dot", d, d), ("c", 2.5)), (), ()),
           [V11, ("slice", V11, 2, 9, 3), ("slice", V11, None, None, -1), ("slice", V11, 9, None, None),
            ("slice", V11, -3, None, None), ("idx", V11, 10), ("idx", V11, -2)])
    yield ("vec11-lp", PR.prob("max", ("bin", "+", ("mm", T11, V11), ("c", 1.0)), (("cmp", "<=", ("sum", V11), ("c", 7)),),
                               (("x", (("lb", 0), ("ub", 2))),)),
           [V11, ("slice", V11, 1, 11, 2), ("slice", V11, None, None, -2)])
    dm = ("mbin", "-", M23, TM)
    yield ("mat23", PR.prob("min", ("msum", ("mbin", "*", dm, dm)), (), ()),
           [M23, ("T", M23), ("row", M23, 1, None, None, None), ("col", M23, None, None, None, 2),
            ("sub", M23, 0, 2, 1, 3), ("row", ("T", M23), 2, None, None, None), ("midx", M23, 1, 2),
            ("col", M23, None, None, None, -1), ("row", M23, -1, 1, None, None)])
    ds = ("mbin", "-", S33, TS)
    yield ("sym33", PR.prob("min", ("bin", "+", ("msum", ("mbin", "*", ds, ds)), ("c", -1.0)), (), ()),
           [S33, ("T", S33), ("diag", S33), ("row", S33, 2, None, None, None), ("col", S33, None, None, None, 0),
            ("sub", S33, 1, 3, 0, 2), ("midx", S33, 2, 0)])
    xa, xb = ("var", "x10"), ("var", "x9")
    yield ("x10x9", PR.prob("min", N.add(N.sq(N.sub(xa, N.c(10))), N.sq(N.sub(xb, N.c(9))), N.c(4)), (), ()),
           [xa, xb])
    b_, a_ = ("var", "b"), ("var", "a")
    yield ("b-before-a", PR.prob("max", ("un", "neg", N.add(N.sq(N.sub(b_, N.c(2))), N.sq(N.sub(a_, N.c(1))))),
                                 (("cmp", "<=", N.add(b_, a_), N.c(2)),), ()), [b_, a_])


def shards(tier, seed):
    return ([("LP", i, 16) for i in range(16)] + [("NLP", i, 24) for i in range(24)] + [("H", i, 6) for i in range(6)]
            + [("PAR", i, 4) for i in range(4)] + [("SH", i, 16) for i in range(16)])


def param_cases():
    """objectives holding a Parameter - as a leaf next to a variable and inside compound parameter-only terms - solved,
    then re-solved on the same problem object after every Parameter.set of the sequence"""
    X_, Y_, P_ = ("var", "x"), ("var", "y"), ("par", "p")
    c_ = lambda v: ("c", v)  # noqa: E731
    sq = lambda a: ("bin", "**", a, c_(2))  # noqa: E731
    add_ = lambda *t: t[0] if len(t) == 1 else ("bin", "+", add_(*t[:-1]), t[-1])  # noqa: E731
    mul_ = lambda a, b: ("bin", "*", a, b)  # noqa: E731
    objs = {
        "(2p)x+(3p+1)": add_(sq(("bin", "-", X_, c_(1))), mul_(mul_(c_(2), P_), X_), add_(mul_(c_(3), P_), c_(1)), sq(Y_)),
        "p*x": add_(sq(("bin", "-", X_, c_(2))), mul_(P_, X_), sq(("bin", "-", Y_, c_(1)))),
        "(x-p)^2+p^2": add_(sq(("bin", "-", X_, P_)), sq(P_), sq(Y_)),
        "exp(p/2)*y": add_(sq(X_), mul_(("un", "exp", ("bin", "/", P_, c_(2))), Y_), sq(Y_)),
        "-p+|p|*x^2": add_(("un", "neg", P_), mul_(("un", "abs", P_), sq(X_)), sq(("bin", "-", Y_, c_(0.5)))),
    }
    attrs = (("x", (("lb", -4), ("ub", 4))), ("y", (("lb", -4), ("ub", 4))))
    for on, o in objs.items():
        for sense in ("min", "max"):
            for m in ("auto", "SLSQP", "L-BFGS-B", "trust-constr"):
                yield (on, sense, m), PR.prob(sense, o if sense == "min" else ("un", "neg", o), (), attrs, (("p", 1.0),)), m


def check_param_sequence(pr, method, rep=None, want=None):
    fails = Fails(want)
    try:
        P, b, _ = PR.build_problem(pr)
    except Exception as ex:
        fails.add("exception:build:" + type(ex).__name__, msg=str(ex)[:200])
        return fails
    if rep:
        rep.states += 1
        rep.nt((pr, method))
    kw = {} if method == "auto" else {"method": method}
    for step, pv in enumerate((1.0, 4.0, -2.5, 0.0)):
        try:
            b.parameter("p").set(pv)
            sol = P.solve(**kw)
        except Exception as ex:
            if rep:
                rep.outcomes["raised:" + type(ex).__name__] += 1
            continue
        if rep:
            rep.transitions += 2
        if not sol.values or sol.objective_value is None:
            continue
        ref, ok = PR.eval_scalar(pr[2], sol.values, {"p": pv})
        if rep:
            rep.evaluations += 1
        if ok and np.isfinite(ref) and np.isfinite(sol.objective_value) and abs(sol.objective_value - ref) > 1e-9 * (1 + abs(ref)):
            fails.add("objective-value:after-parameter-set" if step else "objective-value", step=step, p=pv, got=sol.objective_value,
                      expected=ref, status=sol.status.value, method=method, values=sol.values)
            break
    return fails


def check_shared_objects(pr, method, rep=None, want=None):
    """'Scenario analysis': ONE objective object and ONE set of constraint objects are used by two problems that differ in
    a companion constraint - first with a variable zz (sorts last), then with A0 (sorts first): the same number of
    variables, every shared variable one position further.  Both solves are checked against their own references."""
    from optyx import Problem
    from mc.build import Builder

    fails = Fails(want)
    attrs = dict(PR.attrs_dict(pr))
    attrs.update({"A0": {"lb": 0, "ub": 1}, "zz": {"lb": 0, "ub": 1}})
    try:
        b = Builder(params=PR.params_dict(pr), var_attrs=attrs)
        o = b.build(pr[2])
        ks = [PR.build_constraint(b, c) for c in pr[3]]
    except Exception:
        return fails            # the cold checks report build errors
    base_names = PR.problem_var_names(pr)
    kw = {} if method == "auto" else {"method": method}
    for step, extra in enumerate(("zz", "A0")):
        try:
            P = Problem()
            (P.minimize if pr[1] == "min" else P.maximize)(o)
            for k in ks:
                P.subject_to(k)
            P.subject_to(PR.build_constraint(b, ("cmp", "<=", ("var", extra), ("c", 1))))
            sol = P.solve(**kw)
        except Exception as ex:
            if rep:
                rep.outcomes["raised:" + type(ex).__name__] += 1
            return fails
        if rep:
            rep.states += 1
            rep.transitions += 3 + len(ks)
        if not sol.values or sol.objective_value is None:
            continue
        names = sorted(base_names + [extra])
        if sorted(sol.values) != names:
            fails.add("values-keys:shared-objects", step=step, got=sorted(sol.values), expected=names, method=method)
            break
        ref, ok = PR.eval_scalar(pr[2], sol.values)
        if rep:
            rep.evaluations += 1
        if ok and np.isfinite(ref) and np.isfinite(sol.objective_value) and abs(sol.objective_value - ref) > 1e-9 * (1 + abs(ref)):
            fails.add("objective-value:shared-objects", step=step, companion=extra, got=sol.objective_value, expected=ref,
                      status=sol.status.value, method=method, values=sol.values)
            break
    return fails


class _SkipFlip(Exception):
    pass


# quick tier: the sense flip runs for the methods with their own code paths in optyx (the thorough tier flips for all)
FLIP_METHODS = ("auto", "SLSQP", "trust-constr", "L-BFGS-B", "linprog", "highs")


def check_solution(pr, method, handles=(), rep=None, want=None, extras=("repeat", "flip")):
    fails = Fails(want)
    try:
        P, b, built = PR.build_problem(pr)
    except Exception as ex:
        fails.add("exception:build:" + type(ex).__name__, msg=str(ex)[:200])
        return fails
    if rep:
        rep.states += 1
        rep.transitions += 1 + size(pr[2])
    try:
        sol = P.solve(**({} if method == "auto" else {"method": method}))
    except Exception as ex:
        if rep:
            rep.outcomes["raised:" + type(ex).__name__] += 1
        return fails
    if rep:
        rep.outcomes["status:" + sol.status.value] += 1
    if not sol.values or sol.objective_value is None:
        if rep:
            rep.skipped["no-values-or-objective"] += 1
        return fails
    names = PR.problem_var_names(pr)
    if rep:
        rep.nt((pr, method))
        rep.evaluations += 2
    if sorted(sol.values) != sorted(names) or len(sol.values) != len(names):
        fails.add("values-keys", got=sorted(sol.values), expected=names, method=method)
        return fails
    ref, ok = PR.eval_scalar(pr[2], sol.values)
    if ok and np.isfinite(sol.objective_value):
        if abs(sol.objective_value - ref) > 1e-9 * (1 + abs(ref)):
            fails.add("objective-value", got=sol.objective_value, expected=ref, status=sol.status.value, method=method,
                      values=sol.values)
    elif rep:
        rep.skipped["objective-not-finite-at-returned-point"] += 1
    # warm object: the same problem solved again (caches filled by the first solve)
    try:
        if "repeat" not in extras:
            raise _SkipFlip()
        sol2 = P.solve(**({} if method == "auto" else {"method": method}))
        if rep:
            rep.transitions += 1
        if sol2.values and sol2.objective_value is not None:
            ref2, ok2 = PR.eval_scalar(pr[2], sol2.values)
            if rep:
                rep.evaluations += 1
            if sorted(sol2.values) != sorted(names):
                fails.add("values-keys:repeat", got=sorted(sol2.values), expected=names, method=method)
            elif ok2 and np.isfinite(sol2.objective_value) and abs(sol2.objective_value - ref2) > 1e-9 * (1 + abs(ref2)):
                fails.add("objective-value:repeat", got=sol2.objective_value, expected=ref2, status=sol2.status.value,
                          method=method, values=sol2.values)
    except _SkipFlip:
        pass
    except Exception as ex:
        fails.add("exception:repeat-solve:" + type(ex).__name__, method=method, msg=str(ex)[:200])
    # the other orientation of the SAME objective object on the warm problem (smallest, then largest value of f)
    try:
        if (FLIP_METHODS is not None and method not in FLIP_METHODS) or "flip" not in extras:
            raise _SkipFlip()
        import warnings as _w

        with _w.catch_warnings():
            _w.simplefilter("ignore")
            (P.maximize if pr[1] == "min" else P.minimize)(P.objective)
            sol3 = P.solve(**({} if method == "auto" else {"method": method}))
        if rep:
            rep.transitions += 2
        if sol3.values and sol3.objective_value is not None and sorted(sol3.values) == sorted(names):
            ref3, ok3 = PR.eval_scalar(pr[2], sol3.values)
            if rep:
                rep.evaluations += 1
            if ok3 and np.isfinite(sol3.objective_value) and np.isfinite(ref3) and abs(sol3.objective_value - ref3) > 1e-9 * (1 + abs(ref3)):
                fails.add("objective-value:after-sense-flip", got=sol3.objective_value, expected=ref3, status=sol3.status.value,
                          method=method, values=sol3.values)
    except _SkipFlip:
        pass
    except Exception as ex:
        if rep:
            rep.outcomes["raised-after-sense-flip:" + type(ex).__name__] += 1
    for h in handles:
        obj = b.build(h)
        exp_names = element_names(h)
        exp = np.vectorize(lambda nm: sol.values[nm])(np.array(exp_names, dtype=object)).astype(float) \
            if not isinstance(exp_names, str) else sol.values[exp_names]
        try:
            got = sol[obj]
            got2 = sol.get(obj, None)
        except Exception as ex:
            fails.add("exception:handle:" + type(ex).__name__, handle=h, msg=str(ex)[:200])
            continue
        if rep:
            rep.transitions += 2
            rep.evaluations += int(np.size(exp))
        if isinstance(exp_names, str):
            if got != exp or got2 != exp or sol[exp_names] != exp:
                fails.add("handle-scalar", handle=h, got=got, expected=exp)
            continue
        if np.shape(got) != np.shape(exp) or not np.array_equal(np.asarray(got), exp) or not np.array_equal(np.asarray(got2), exp):
            fails.add("handle-array", handle=h, got=got, expected=exp)
    if handles:
        if sol.get("no-such-variable", 7.0) != 7.0:
            fails.add("get-default", got=sol.get("no-such-variable", 7.0))
    return fails


def explore(item, tier, seed):
    global FLIP_METHODS
    kind, i, n = item
    rep = Report()
    if tier == "thorough":
        FLIP_METHODS = None

    def record(fs, case):
        seen = set()
        for k, d in fs:
            if k not in seen:
                seen.add(k)
                rep.violation(k, case, **d)

    if kind == "LP":
        step = 1 if tier == "thorough" else 3
        import itertools as _it

        for idx, labs, pr, m in _it.chain(F.family("quick"), F.view_family(), F.scaled_family()):
            if idx % step == 0 and (idx // step) % n == i:
                record(check_solution(pr, m, (), rep), {"family": "lp", "label": labs, "problem": pr, "method": m})
                if rep.states % 301 == 1:
                    rep.sample({"label": labs, "method": m})
    elif kind == "SH":
        import itertools as _it

        step = 3 if tier == "thorough" else 23
        for idx, labs, pr, m in _it.chain(F.family("quick"), F.view_family()):
            if idx % step == 0 and (idx // step) % n == i:
                record(check_shared_objects(pr, m, rep), {"family": "shared", "label": labs, "problem": pr, "method": m})
        for idx, lab, pr, m in N.family("quick", methods=("auto", "SLSQP", "trust-constr") if tier == "thorough" else ("auto", "SLSQP")):
            if idx % (2 if tier == "thorough" else 7) == 0 and (idx // 7) % n == i:
                record(check_shared_objects(pr, m, rep), {"family": "shared", "label": lab, "problem": pr, "method": m})
    elif kind == "PAR":
        for k, (lab, pr, m) in enumerate(param_cases()):
            if k % n == i:
                record(check_param_sequence(pr, m, rep), {"family": "param", "label": lab, "problem": pr, "method": m})
    elif kind == "NLP":
        methods = ("auto", "SLSQP", "trust-constr", "L-BFGS-B", "Nelder-Mead", "BFGS", "linprog")
        for idx, lab, pr, m in N.family(tier, methods=methods):
            if idx % n == i:
                ex_ = ("repeat", "flip") if tier == "thorough" else (("repeat",) if (idx // 7) % 2 == 0 else ("flip",))
                record(check_solution(pr, m, (), rep, extras=ex_), {"family": "nlp", "label": lab, "problem": pr, "method": m, "extras": ex_})
                if rep.states % 301 == 1:
                    rep.sample({"label": lab, "method": m})
    else:
        for k, (lab, pr, handles) in enumerate(handle_models()):
            if k % n == i:
                for m in ("auto", "SLSQP", "L-BFGS-B", "trust-constr"):
                    record(check_solution(pr, m, handles, rep), {"family": "handles", "label": lab, "problem": pr,
                                                                 "method": m, "handles": handles})
                rep.sample({"label": lab, "handles": handles})
    return rep


def culprit(v):
    case = v["case"]
    lab = case["label"]
    if case["family"] == "lp":
        return {"kind": v["kind"], "family": "lp", "spelling": lab[:1], "sense": case["problem"][1]}
    return {"kind": v["kind"], "family": case["family"], "label": lab, "method": case["method"]}


def _extras_of(case):
    return tuple(case.get("extras") or ("repeat", "flip"))


def replay(art):
    case = art["violation"]["case"]
    if case.get("family") == "shared":
        return [{"kind": k, "detail": d} for k, d in check_shared_objects(detuple(case["problem"]), case["method"], None, want=art["culprit"]["kind"])]
    if case.get("family") == "param":
        return [{"kind": k, "detail": d} for k, d in check_param_sequence(detuple(case["problem"]), case["method"], None, want=art["culprit"]["kind"])]
    fs = check_solution(detuple(case["problem"]), case["method"], detuple(case.get("handles", [])), None,
                        want=art["culprit"]["kind"])
    return [{"kind": k, "detail": d} for k, d in fs]
