#!/venv/bin/python
"""Regenerate MANIFEST.json from the table below (keeps the file valid against the schema)."""
import json, os, sys

HERE = os.path.dirname(os.path.abspath(__file__))
BASELINE = ("cd /repo && /venv/bin/python -m pytest -ra -q -p no:cacheprovider --timeout=900 "
            "--continue-on-collection-errors")

CHECKS = {}   # filled from checks_table.json
table = json.load(open(os.path.join(HERE, "checks_table.json")))
props = [json.loads(l) for l in open(os.path.join(HERE, "properties.jsonl"))]
checks, na = [], []
for p in props:
    pid = p["id"]
    t = table.get(pid)
    if not t or t.get("not_applicable"):
        na.append({"property_id": pid, "reason": (t or {}).get("not_applicable", "check not built yet in this session (work in progress)")})
        continue
    checks.append({
        "property_id": pid,
        "quick_cmd": f"./check {pid} --tier quick",
        "thorough_cmd": f"./check {pid} --tier thorough",
        "evidence_file": f"/verif/evidence/{pid}.json",
        "replay_cmd_template": f"./check {pid} --replay {{path}}",
        "engine": "mc",
        "level_claimed": {"category": t.get("category", "model_checking"), "text": t["text"], "design_ref": t.get("design_ref", f"DESIGN.md section 4, {pid}")},
        "level_note": t["note"],
        "technique": t["technique"],
    })
man = {
    "version": 1,
    "setup_cmd": "cd /verif && /venv/bin/python -m compileall -q mc checks && PYTHONPATH=/verif /venv/bin/python -m selftest.oracles",
    "hooks": {
        "guard": "OPTYX_VERIF",
        "enable": "no source hooks are needed: every observation point is reachable from outside (public API, plain private attributes, module-level seams); checks import optyx from /repo/src directly",
        "baseline_off_cmd": BASELINE,
        "source_commits": [],
        "add_only": True,
    },
    "engines": [{
        "name": "mc", "path": "/verif/mc",
        "serves_properties": [c["property_id"] for c in checks],
        "kind_free_text": "hand-rolled bounded exhaustive explorer of the real implementation (stateless enumeration of builder-operation sequences, explicit-state BFS over Problem histories, environment-answer and fault enumeration), Python, 16 forked workers",
    }],
    "checks": checks,
    "not_applicable": na,
    "notes": "see DESIGN.md; known_findings.json lists recorded findings and fixed defects",
}
json.dump(man, open(os.path.join(HERE, "MANIFEST.json"), "w"), indent=1)
import jsonschema
jsonschema.validate(man, json.load(open("/root/.vp/MANIFEST.schema.json")))
print("MANIFEST ok:", len(checks), "checks,", len(na), "not claimed")
