"""Calling disciplines for compiled callables (how a solver really calls them)."""

from __future__ import annotations

import numpy as np


class RepeatCallDiffers(Exception):
    """a compiled callable answered differently when asked twice in a row at the same point"""


class InputMutated(Exception):
    """a compiled callable modified the array it was given"""


class InPlace:
    """The calling discipline of a solver, applied to a compiled callable: ONE float64 buffer per callable that is
    overwritten IN PLACE for every new point (SciPy hands its own iterate array, updated in place), and every point
    requested twice in a row (line searches and accept steps re-request the last point).  Returns the second answer;
    raises when the two answers differ or the callee wrote into the buffer."""

    __slots__ = ("fn", "buf")

    def __init__(self, fn):
        self.fn = fn
        self.buf = None

    def __call__(self, x):
        x = np.asarray(x, dtype=np.float64)
        if self.buf is None or self.buf.shape != x.shape:
            self.buf = x.copy()
        else:
            self.buf[...] = x
        r1 = self.fn(self.buf)
        c1 = np.array(r1, dtype=float, copy=True)
        r2 = self.fn(self.buf)
        c2 = np.asarray(r2, dtype=float)
        if not np.array_equal(self.buf, x):
            raise InputMutated(f"input {x.tolist()} became {self.buf.tolist()}")
        if c1.shape != c2.shape or not np.array_equal(c1, c2, equal_nan=True):
            raise RepeatCallDiffers(f"at {x.tolist()}: first {c1.tolist()} second {c2.tolist()}")
        return r2


def clear_lru(*modules):
    """Clear every functools.lru_cache-style memo defined at module level in the given modules.  The harness
    names no private function of optyx: a refactoring that renames or replaces one must not crash a check."""
    for mod in modules:
        for obj in list(vars(mod).values()):
            cc = getattr(obj, "cache_clear", None)
            if callable(cc):
                try:
                    cc()
                except Exception:
                    pass
