"""C20  a failed or interrupted solve leaves the process and the problem intact (fault enumeration)."""

from __future__ import annotations

import sys
import warnings

import scipy.optimize

from checks.common import Fails, Report, detuple, np
from checks.c13 import call_signature, same_outcome
from mc.seams import Seam

ID = "C20"
LEVEL = "fault_enumeration"
RULE = (
    "cases = (problem, method, callback kind, k, exception class[, second fault]) : for each of the problems {LP, bounded "
    "NLP, constrained QP, constrained non-quadratic problem with lazily compiled Hessian, model that triggers the "
    "SLSQP->trust-constr retry, model with shared transcendental sub-expression objects and a parameter whose value read is a fault point inside the evaluation, model whose objective and constraint are 420-term accumulations} a fault-free run counts the evaluations K of every callback kind (objective, "
    "gradient, each constraint function, each constraint Jacobian, Hessian) and the calls K of every CACHE-CONSTRUCTION "
    "step (compile_expression, compile_jacobian, compile_hessian, symbolic gradient, LP extractor steps: crash points "
    "inside the construction of what the problem caches) and the calls K of every compiled closure wherever optyx makes them (also its own post-solve evaluations); then for EVERY k <= K of every kind "
    "(quick: k in {1,2,3, middle, K}), for the solver entry itself (back-end raising before any evaluation) and for "
    "linprog raising, and for every exception class in {ValueError, FloatingPointError, MemoryError, "
    "KeyboardInterrupt}, the faulted solve is run on a fresh replica; deviation bound 2 in the thorough tier (second "
    "fault in the next solve, possibly under another method).  Also increased_recursion_limit with a body raising "
    "each class at nesting depth 1 and 2, and a real RecursionError from a deep tree.  Oracle per case: the call "
    "returns a FAILED Solution or propagates the injected exception object (or an error raised from it); afterwards warnings.showwarning is the "
    "object installed before, sys.getrecursionlimit() is unchanged, and solving the SAME problem object again (same "
    "method and every other method of the menu) gives the status / objective / values and hands the back-end the same "
    "model as a never-faulted replica.  distinct = (problem, method, kind, k, class) tuples, K measured per run."
)
ASSUMPTIONS = [
    "faults are injected by wrapping the callables optyx hands to the back-end (the exception travels through SciPy into optyx's handlers)",
    "a fault that SciPy itself swallows (the solve continues) is counted as 'swallowed by back-end', not judged",
]

CLASSES = (ValueError, FloatingPointError, MemoryError, KeyboardInterrupt)
PARAM_HOOK = [None]      # set while a faulted solve runs: called on every read of a FaultyParameter's value


def faulty_parameter(name, value):
    """A Parameter whose value read is a fault point INSIDE optyx's compiled / tree evaluation (data that comes from a
    live source may raise while it is read): the exception originates in the middle of an evaluation."""
    from optyx import Parameter

    class FaultyParameter(Parameter):
        __slots__ = ()

        @property
        def value(self):
            h = PARAM_HOOK[0]
            if h is not None:
                h()
            return self._value

    return FaultyParameter(name, value)


def problems():
    import optyx
    from optyx import Variable, Problem

    def lp():
        x, y = Variable("x", lb=0, ub=4), Variable("y", lb=0, ub=4)
        return Problem().maximize(x + 2 * y + 1).subject_to(x + y <= 5).subject_to(x - y >= -2)

    def bounded():
        x, y = Variable("x", lb=0.5, ub=4), Variable("y", lb=-1, ub=4)
        return Problem().minimize(optyx.exp(0.5 * x) + (x - 3) ** 2 + (y - 1) ** 4)

    def qp():
        x, y = Variable("x", lb=0, ub=4), Variable("y", lb=0, ub=4)
        return Problem().minimize((x - 3) ** 2 + (y - 3) ** 2 + x * y * 0.5).subject_to(x + y <= 4).subject_to((x - y).eq(0.5))

    def nonquad():
        x, y = Variable("x", lb=0.1, ub=4), Variable("y", lb=0.1, ub=4)
        return Problem().maximize(optyx.log(x) + optyx.log(y) - 0.1 * x ** 3).subject_to(x ** 2 + y ** 2 <= 9)

    def retry():
        # the SLSQP -> trust-constr retry is triggered by an environment answer: the first back-end call (SLSQP)
        # is answered "success" with a point that violates x + y <= 4; the retry (trust-constr) is real and faulted
        return qp()

    def deep():
        # objective and constraint accumulated term by term beyond the depth at which optyx switches algorithms
        x, y = Variable("x", lb=-2, ub=4), Variable("y", lb=-2, ub=4)
        e = (x - 1) ** 2
        g = x + y
        for i in range(1, 420):
            e = e + ((x if i % 2 else y) - 0.01 * (i % 7)) ** 2 * 0.01
            g = g + 0.001 * (x if i % 3 else y)
        return Problem().minimize(e + optyx.exp(0.1 * y)).subject_to(g <= 3)

    def shared():
        # one transcendental sub-expression OBJECT used several times, evaluated before a parameter is read
        x, y = Variable("x", lb=-3, ub=3), Variable("y", lb=-3, ub=3)
        p = faulty_parameter("p", 2.0)
        e = optyx.exp(-x)
        s_ = optyx.sin(y)
        f = e + e * e + s_ * s_ + p * (y - 0.5) ** 2 + (x + y - 1) ** 2 + e * s_
        return Problem().minimize(f).subject_to(e + p * y <= 6)

    return {
        "shared-subexpr": (shared, ("auto", "L-BFGS-B", "SLSQP")),
        "deep-nlp": (deep, ("SLSQP", "trust-constr")),
        "lp": (lp, ("auto", "highs-ds")),
        "bounded-nlp": (bounded, ("auto", "L-BFGS-B", "trust-constr")),
        "constrained-qp": (qp, ("auto", "SLSQP", "trust-constr")),
        "nonquadratic": (nonquad, ("auto", "trust-constr", "SLSQP")),
        "retry": (retry, ("SLSQP",)),
    }


class Counter:
    def __init__(self, plan=None):
        self.counts = {}
        self.plan = plan or {}      # kind -> (k, exception instance)
        self.fired = []
        self.in_backend = 0         # > 0 while a back-end call (minimize / linprog) is on the stack
        self.fired_in_backend = None

    def reset(self, plan=None):
        """a new solve of the same history: wrappers installed by earlier solves (closures kept in the problem's caches)
        stay attached to this counter and are fault points of the later solves too"""
        self.counts = {}
        self.plan = plan or {}
        self.fired = []
        self.in_backend = 0
        self.fired_in_backend = None

    def wrap(self, kind, fn):
        if fn is None or not callable(fn):
            return fn

        def wrapped(*a, **kw):
            self.counts[kind] = self.counts.get(kind, 0) + 1
            if kind in self.plan and self.plan[kind][0] == self.counts[kind]:
                self.fired.append(kind)
                self.fired_in_backend = self.in_backend > 0
                raise self.plan[kind][1]
            return fn(*a, **kw)

        return wrapped


RETRY_FIRST_ANSWER = {"on": False}


class BuildSeam:
    """Crash points INSIDE cache construction: while a solve runs, the functions optyx calls to build what it caches
    (compile_expression, compile_jacobian, compile_hessian, symbolic gradient, the LP extractor's three steps) go
    through the fault counter (they are looked up on their modules at call time, so replacing the module attribute
    intercepts every call - no source change).  kind = 'build:<function>'; k counts calls within one solve."""

    def __init__(self, counter):
        self.counter = counter
        self.saved = []

    def __enter__(self):
        from optyx.core import compiler, autodiff
        from optyx import analysis

        targets = [(compiler, "compile_expression"), (autodiff, "compile_jacobian"), (autodiff, "compile_hessian"),
                   (autodiff, "gradient"), (analysis.LinearProgramExtractor, "extract_objective"),
                   (analysis.LinearProgramExtractor, "extract_constraints"), (analysis.LinearProgramExtractor, "extract_bounds")]
        for owner, name in targets:
            orig = owner.__dict__[name] if isinstance(owner, type) else getattr(owner, name)
            self.saved.append((owner, name, orig))
            built = self.counter.wrap("build:" + name, orig)
            if name.startswith("compile_"):
                # ... and every CALL of a compiled closure is a fault point too, wherever optyx makes it (inside the
                # back-end or in its own post-solve evaluations: feasibility check, objective at the returned point)
                def compiling(*a, _b=built, _n=name, **kw):
                    fn = _b(*a, **kw)
                    return self.counter.wrap("eval:" + _n, fn) if callable(fn) else fn
                built = compiling
            setattr(owner, name, built)
        return self

    def __exit__(self, *exc):
        for owner, name, orig in self.saved:
            setattr(owner, name, orig)
        return False


def faulty_backend(counter, entry_fault=None):
    """script entry for Seam: wrap the callables of each minimize call / raise at solver entry."""
    state = {"calls": 0}

    def handler(call):
        state["calls"] += 1
        if RETRY_FIRST_ANSWER["on"] and state["calls"] == 1 and call.kind == "minimize" and call.kw.get("method") == "SLSQP":
            return scipy.optimize.OptimizeResult(x=np.array([3.5, 3.0]), fun=0.0, success=True, status=0,
                                                 message="Optimization terminated successfully", nit=1)
        if entry_fault is not None and not counter.fired:
            counter.fired.append("entry")
            raise entry_fault
        kw = dict(call.kw)
        if call.kind == "linprog":
            counter.in_backend += 1
            try:
                return scipy.optimize.linprog(**kw)
            finally:
                counter.in_backend -= 1
        kw["fun"] = counter.wrap("objective", kw.get("fun"))
        kw["jac"] = counter.wrap("gradient", kw.get("jac"))
        kw["hess"] = counter.wrap("hessian", kw.get("hess"))
        cons = []
        for i, cd in enumerate(kw.get("constraints") or ()):
            cd = dict(cd)
            cd["fun"] = counter.wrap(f"constraint{i}", cd.get("fun"))
            cd["jac"] = counter.wrap(f"jacobian{i}", cd.get("jac"))
            cons.append(cd)
        kw["constraints"] = cons if cons else ()
        counter.in_backend += 1
        try:
            return scipy.optimize.minimize(**kw)
        finally:
            counter.in_backend -= 1

    return handler


def solve_with(P, method, counter, entry_fault=None, retry=False):
    kw = {} if method == "auto" else {"method": method}
    RETRY_FIRST_ANSWER["on"] = retry
    h = faulty_backend(counter, entry_fault)
    PARAM_HOOK[0] = counter.wrap("param-read", lambda: None)
    try:
        with BuildSeam(counter):
            with Seam(script=[h] * 6, passthrough=False) as s:
                sol = P.solve(**kw)
    finally:
        PARAM_HOOK[0] = None
    return sol, s


def observe_plain(P, method):
    kw = {} if method == "auto" else {"method": method}
    with warnings.catch_warnings():
        warnings.simplefilter("ignore")
        with Seam() as s:
            try:
                sol = P.solve(**kw)
                out = ("solution", sol.status.value, sol.objective_value, dict(sol.values))
            except Exception as ex:
                out = ("raised", type(ex).__name__)
    try:
        sigs = [call_signature(c) for c in s.calls]
    except Exception as ex:
        sigs = [("signature-error", type(ex).__name__)]
    return out, sigs


_BASE = {}


def baseline(pname, method):
    if (pname, method) not in _BASE:
        build, methods = problems()[pname]
        _BASE[(pname, method)] = observe_plain(build(), method)
    return _BASE[(pname, method)]


def measure(pname, method):
    build, _ = problems()[pname]
    c = Counter()
    with warnings.catch_warnings():
        warnings.simplefilter("ignore")
        solve_with(build(), method, c, retry=(pname == "retry"))
    return dict(c.counts)


def ks_for(K, tier):
    if tier == "thorough" or K <= 6:
        return list(range(1, K + 1))
    return sorted({1, 2, 3, K // 2, K - 1, K})


def check_fault(pname, method, faults, rep=None, want=None, followups=None):
    """faults = [(method_i, kind, k, class_name)] applied to consecutive solves of one problem object."""
    fails = Fails(want)
    build, methods = problems()[pname]
    P = build()
    show0 = warnings.showwarning
    lim0 = sys.getrecursionlimit()
    filters0 = list(warnings.filters)
    counter = Counter()
    for (m, kind, k, cname) in faults:
        if kind == "ok":
            # an unfaulted solve first: the faulted one then meets a WARM problem (caches, memos, compiled closures)
            counter.reset({})
            try:
                with warnings.catch_warnings():
                    warnings.simplefilter("ignore")
                    solve_with(P, m, counter, retry=(pname == "retry"))
            except Exception:
                pass
            if rep:
                rep.transitions += 1
            continue
        exc = {c.__name__: c for c in CLASSES}[cname]("injected fault")
        counter.reset({} if kind == "entry" else {kind: (k, exc)})
        outcome = None
        try:
            # no warnings.catch_warnings() here: its __exit__ would restore showwarning and mask a leak
            sol, s = solve_with(P, m, counter, entry_fault=exc if kind == "entry" else None, retry=(pname == "retry"))
            outcome = ("returned", sol.status.value)
        except BaseException as ex:
            outcome = ("propagated", type(ex).__name__)
            chain, seen_ = ex, set()
            while chain is not None and chain is not exc and id(chain) not in seen_:
                seen_.add(id(chain))
                chain = chain.__cause__ or chain.__context__
            if chain is not exc:       # neither the injected exception nor an error raised from it
                fails.add("foreign-exception-propagated", method=m, callback=kind, k=k, cls=cname, got=repr(ex)[:200])
        if rep:
            rep.transitions += 1
            rep.outcomes["%s:%s" % (cname, outcome[0] + "/" + outcome[1])] += 1
        if not counter.fired:
            if rep:
                rep.skipped["fault-point-not-reached"] += 1
        elif outcome[0] == "returned" and outcome[1] != "failed":
            if counter.fired_in_backend is False and kind != "entry":
                # raised in optyx's OWN code (cache construction, post-solve evaluations), not under SciPy: the call
                # must return FAILED or propagate - reporting success means optyx swallowed the fault
                fails.add("fault-outside-back-end-swallowed", method=m, callback=kind, k=k, cls=cname, returned=outcome[1])
            elif rep:
                rep.skipped["fault-swallowed-by-back-end"] += 1
        if warnings.showwarning is not show0:
            fails.add("showwarning-not-restored", method=m, callback=kind, k=k, cls=cname, after=outcome)
            warnings.showwarning = show0
        if sys.getrecursionlimit() != lim0:
            fails.add("recursion-limit-not-restored", method=m, callback=kind, k=k, cls=cname, got=sys.getrecursionlimit())
            sys.setrecursionlimit(lim0)
    # the same problem object must now behave like a never-faulted replica
    for m2 in (followups or methods):
        got = observe_plain(P, m2)
        exp = baseline(pname, m2)
        if rep:
            rep.transitions += 1
            rep.evaluations += 2
        if got[1] != exp[1]:
            fails.add("backend-model-differs-after-fault", faults=faults, next_method=m2,
                      got=got[1][:1], expected=exp[1][:1], n_calls=(len(got[1]), len(exp[1])))
        if not same_outcome(got[0], exp[0]):
            fails.add("next-solve-differs-after-fault", faults=faults, next_method=m2, got=got[0], expected=exp[0])
    return fails


def all_cases(tier):
    for pname, (build, methods) in problems().items():
        for m in methods:
            yield ("plan", pname, m)


def recursion_cases():
    for cname in [c.__name__ for c in CLASSES] + ["RecursionError"]:
        for depth in (1, 2):
            yield ("recursion", cname, depth)


def shards(tier, seed):
    out = []
    for pname, (build, methods) in problems().items():
        for m in methods:
            if pname == "deep-nlp" and tier == "quick" and m != "SLSQP":
                continue
            nparts = 12 if pname == "deep-nlp" else 4
            for part in range(nparts):
                out.append(("faults", pname, m, part, nparts))
    out.append(("recursion",))
    return out


def check_recursion(rep):
    from optyx import increased_recursion_limit, Variable
    from optyx.core.autodiff import gradient

    fails = Fails()
    lim0 = sys.getrecursionlimit()
    for cname in [c.__name__ for c in CLASSES]:
        cls = {c.__name__: c for c in CLASSES}[cname]
        for depth in (1, 2):
            for limit in (3000, 1200):
                try:
                    if depth == 1:
                        with increased_recursion_limit(limit):
                            assert sys.getrecursionlimit() == limit
                            raise cls("injected")
                    else:
                        with increased_recursion_limit(limit):
                            with increased_recursion_limit(limit + 500):
                                assert sys.getrecursionlimit() == limit + 500
                                raise cls("injected")
                except BaseException as ex:
                    if not isinstance(ex, cls):
                        fails.add("recursion-context-raised-other", cls=cname, got=repr(ex)[:100])
                rep.transitions += 1
                rep.evaluations += 1
                rep.nt(("recursion", cname, depth, limit))
                if sys.getrecursionlimit() != lim0:
                    fails.add("recursion-limit-not-restored", cls=cname, depth=depth, got=sys.getrecursionlimit(), expected=lim0)
                    sys.setrecursionlimit(lim0)
    # a real RecursionError inside the context (right-deep tree defeats the left-spine depth estimate)
    x = Variable("x")
    e = x
    for i in range(3000):
        e = x + e
    try:
        with increased_recursion_limit(1500):
            gradient(e, x)
    except RecursionError:
        rep.outcomes["real-RecursionError-raised"] += 1
    except Exception as ex:
        rep.outcomes["deep-tree:" + type(ex).__name__] += 1
    rep.transitions += 1
    rep.nt(("recursion", "real"))
    if sys.getrecursionlimit() != lim0:
        fails.add("recursion-limit-not-restored", cls="RecursionError(real)", got=sys.getrecursionlimit(), expected=lim0)
        sys.setrecursionlimit(lim0)
    return fails


def explore(item, tier, seed):
    rep = Report()
    if item[0] == "recursion":
        for k, d in check_recursion(rep):
            rep.violation(k, {"mode": "recursion"}, **d)
        rep.states += 1
        return rep
    _, pname, method, part, nparts = item
    counts = measure(pname, method)
    if part == 0:
        rep.extra[f"K:{pname}:{method}"] = counts
        rep.sample({"problem": pname, "method": method, "evaluations_per_callback_kind": counts})
    build, methods = problems()[pname]
    plans = [("entry", 1)]
    for kind, K in sorted(counts.items()):
        plans += [(kind, k) for k in ks_for(K, tier)]
    todo = [(kind, k, cls) for kind, k in plans for cls in CLASSES]
    for j, (kind, k, cls) in enumerate(todo):
        if j % nparts != part:
            continue
        if True:
            faults = [(method, kind, k, cls.__name__)]
            fs = check_fault(pname, method, faults, rep, followups=None if tier == "thorough" else
                             ((method,) if pname == "deep-nlp" else (method, methods[-1])))
            rep.states += 1
            rep.nt((pname, method, kind, k, cls.__name__))
            seen = set()
            for kk, d in fs:
                if kk not in seen:
                    seen.add(kk)
                    rep.violation(kk, {"mode": "fault", "problem": pname, "faults": faults}, **d)
    # WARM histories: an unfaulted solve, then a solve faulted at the first / second call of every callback kind
    warm = [(kind, k, cls) for kind in sorted(counts) if not kind.startswith("build:")
            for k in ((1, 2) if tier == "quick" else ks_for(min(counts[kind], 4), "thorough"))
            for cls in (CLASSES if tier == "thorough" else (ValueError, KeyboardInterrupt))]
    warm.append(("entry", 1, ValueError))
    for j, (kind, k, cls) in enumerate(warm):
        if j % nparts != part or (pname == "deep-nlp" and tier == "quick" and k != 1):
            continue
        faults = [(method, "ok", 0, "-"), (method, kind, k, cls.__name__)]
        fs = check_fault(pname, method, faults, rep, followups=(method,) if tier == "quick" else None)
        rep.states += 1
        rep.nt((pname, tuple(faults)))
        seen = set()
        for kk, d in fs:
            if kk not in seen:
                seen.add(kk)
                rep.violation(kk + ":warm", {"mode": "fault", "problem": pname, "faults": faults}, **d)
    if tier == "thorough" and part == 0 and pname != "deep-nlp":
        # two faults: solve 1 faulted at k1, solve 2 (possibly another method) faulted at k2
        for kind1, K1 in sorted(counts.items()):
            for m2 in methods:
                c2 = measure(pname, m2)
                for kind2, K2 in sorted(c2.items()):
                    for k1 in {1, K1}:
                        for k2 in {1, K2}:
                            for cls in (ValueError, KeyboardInterrupt):
                                faults = [(method, kind1, k1, cls.__name__), (m2, kind2, k2, cls.__name__)]
                                fs = check_fault(pname, method, faults, rep)
                                rep.states += 1
                                rep.nt((pname, tuple(faults)))
                                seen = set()
                                for kk, d in fs:
                                    if kk not in seen:
                                        seen.add(kk)
                                        rep.violation(kk, {"mode": "fault", "problem": pname, "faults": faults}, **d)
    return rep


def culprit(v):
    c = v["case"]
    if c["mode"] == "recursion":
        return {"kind": v["kind"], "mode": "recursion"}
    f = c["faults"]
    real = [x for x in f if x[1] != "ok"]
    return {"kind": v["kind"], "problem": c["problem"], "method": f[0][0], "callback": real[0][1], "class": real[0][3],
            "n_faults": len(real)}


def replay(art):
    c = art["violation"]["case"]
    if c["mode"] == "recursion":
        return [{"kind": k, "detail": d} for k, d in check_recursion(Report())]
    warm = any(f[1] == "ok" for f in c["faults"])
    want = art["culprit"]["kind"]
    fs = check_fault(c["problem"], c["faults"][0][0], [tuple(f) for f in c["faults"]], None,
                     want=want[:-len(":warm")] if warm and want.endswith(":warm") else want)
    return [{"kind": k + (":warm" if warm else ""), "detail": d} for k, d in fs]
