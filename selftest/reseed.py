#!/venv/bin/python
"""Regression over the stored seeded changes: every change under /verif/seeded must still be reported by the
check(s) recorded as catching it.   selftest/reseed.py [-j N] [ids...]
Each patch is applied to a scratch copy of /repo/src outside /repo and /verif (removed afterwards); the quick
check runs with OPTYX_SRC pointing at the copy.  Exit 0 iff every change is still detected."""
import concurrent.futures as cf
import glob
import json
import os
import shutil
import subprocess
import sys
import tempfile

ROOT = os.path.dirname(os.path.dirname(os.path.abspath(__file__)))


def one(d):
    meta = json.load(open(os.path.join(d, "meta.json")))
    catching = [c for c, r in meta.get("checks", {}).items() if r.get("exit") == 1] or [meta["property"]]
    scratch = tempfile.mkdtemp(prefix="optyx_reseed_", dir="/var/tmp")
    try:
        shutil.copytree("/repo/src", os.path.join(scratch, "src"), ignore=shutil.ignore_patterns("__pycache__"))
        subprocess.run("git init -q", shell=True, cwd=scratch)
        r = subprocess.run(["git", "apply", "--whitespace=nowarn", os.path.join(d, "patch.diff")], cwd=scratch, capture_output=True, text=True)
        if r.returncode:
            return meta["id"], "PATCH-DOES-NOT-APPLY", {}
        out = {}
        for c in catching:
            r = subprocess.run([os.path.join(ROOT, "check"), c, "--tier", "quick", "--jobs", "4"], capture_output=True, text=True,
                               env=dict(os.environ, OPTYX_SRC=os.path.join(scratch, "src"), VERIF_NO_EVIDENCE="1"))
            out[c] = r.returncode
        return meta["id"], "detected" if any(v == 1 for v in out.values()) else "NOT-DETECTED", out
    finally:
        shutil.rmtree(scratch, ignore_errors=True)


def main():
    args = sys.argv[1:]
    j = 4
    if args[:1] == ["-j"]:
        j = int(args[1])
        args = args[2:]
    dirs = sorted(glob.glob(os.path.join(ROOT, "seeded", "*")))
    if args:
        dirs = [d for d in dirs if os.path.basename(d) in args]
    bad = 0
    with cf.ThreadPoolExecutor(j) as ex:
        for sid, verdict, out in ex.map(one, dirs):
            print(sid, verdict, out, flush=True)
            bad += verdict != "detected"
    print(f"{len(dirs) - bad}/{len(dirs)} seeded changes detected")
    return 1 if bad else 0


if __name__ == "__main__":
    sys.exit(main())
