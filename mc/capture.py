"""Compare what optyx hands to scipy.optimize.minimize with the reference model of a problem recipe."""

from __future__ import annotations

import numpy as np

from mc import problems as PR
from mc.callers import InPlace
from mc.oracle import ref_jet, close, REL_D

BOUNDS_METHODS = {"L-BFGS-B", "TNC", "SLSQP", "Powell", "trust-constr", "Nelder-Mead"}
HESSIAN_METHODS = {"trust-constr", "Newton-CG", "dogleg", "trust-ncg", "trust-exact"}


def probe_points(names, k=6):
    g = (-1.5, -0.5, 0.25, 0.75, 2.0, 1.25, -0.25)
    pts = {}
    for j, nm in enumerate(names):
        pts[nm] = np.array([g[(j * 2 + i * (1 + j % 3) + i // 3) % len(g)] for i in range(k)])
    return pts, k


def check_objective(kw, pr, names, fails, rep=None, params=None):
    """fun / jac / hess of a captured minimize() call against the recipe (sign for maximise included)."""
    obj = pr[2] if pr[1] == "min" else ("un", "neg", pr[2])
    pts, P = probe_points(names)
    v, g, H, ok, reg, ev, eg, eH = ref_jet(obj, names, pts, P, params or {})
    m = ok & reg
    # solver calling discipline: one buffer per callable updated in place, every point requested twice
    kw = dict(kw)
    for key in ("fun", "jac", "hess"):
        if callable(kw.get(key)):
            kw[key] = InPlace(kw[key])
    for k in np.flatnonzero(m):
        x = np.array([pts[n][k] for n in names])
        try:
            fv = float(kw["fun"](x))
            if kw.get("jac") is not None:
                kw["jac"](x)
            if kw.get("hess") is not None:
                kw["hess"](x)
        except Exception as ex:
            fails.add("exception:captured-fun:" + type(ex).__name__, x=x, msg=str(ex)[:200])
            return
        if rep:
            rep.evaluations += 1
        if not close(fv, v[k], ev[k]):
            fails.add("captured-fun", x=x, got=fv, expected=float(v[k]), sense=pr[1])
            return
        if kw.get("jac") is not None:
            gv = np.asarray(kw["jac"](x), dtype=float)
            if rep:
                rep.evaluations += gv.size
            if gv.shape != (len(names),) or not close(gv, g[:, k], eg[:, k], REL_D).all():
                fails.add("captured-jac", x=x, got=gv, expected=g[:, k], sense=pr[1], variables=names)
                return
        if kw.get("hess") is not None:
            hv = np.asarray(kw["hess"](x), dtype=float)
            if rep:
                rep.evaluations += hv.size
            if hv.shape != (len(names), len(names)) or not close(hv, H[:, :, k], eH[:, :, k], REL_D).all():
                fails.add("captured-hess", x=x, got=hv, expected=H[:, :, k], sense=pr[1], variables=names)
                return


def check_bounds(kw, pr, names, method, fails):
    exp = []
    for nm in names:
        lb, ub, _ = PR.declared_bounds(pr, nm)
        exp.append((-np.inf if lb is None else float(lb), np.inf if ub is None else float(ub)))
    got = kw.get("bounds")
    if method in BOUNDS_METHODS:
        if got is None:
            if any(np.isfinite(a) or np.isfinite(b) for a, b in exp):
                fails.add("captured-bounds-missing", expected=exp)
            return exp
        try:
            g = [(float(-np.inf if a is None else a), float(np.inf if b is None else b)) for a, b in got]
        except Exception:
            lo = np.asarray(got.lb, dtype=float) * np.ones(len(names))
            hi = np.asarray(got.ub, dtype=float) * np.ones(len(names))
            g = list(zip(lo.tolist(), hi.tolist()))
        if g != exp:
            fails.add("captured-bounds", got=g, expected=exp, variables=names)
    return exp


def check_x0(kw, exp_bounds, fails, user_x0=None):
    x0 = np.asarray(kw.get("x0"), dtype=float)
    if user_x0 is not None:
        if not np.array_equal(x0, np.asarray(user_x0, dtype=float)):
            fails.add("user-x0-not-passed-through", got=x0, expected=user_x0)
        return
    if x0.shape != (len(exp_bounds),) or not np.all(np.isfinite(x0)):
        fails.add("x0-not-finite", got=x0)
        return
    for xi, (lo, hi) in zip(x0, exp_bounds):
        if lo <= hi and not (lo <= xi <= hi):
            fails.add("x0-outside-bounds", got=x0, bounds=exp_bounds)
            return


def check_constraints(kw, pr, names, fails, rep=None, params=None):
    """Captured scipy constraint dicts vs the relation the user wrote (any positive scaling accepted)."""
    flat = PR.flat_constraints(pr)
    got = kw.get("constraints") or ()
    if isinstance(got, dict):
        got = [got]
    got = list(got)
    if len(got) != len(flat):
        fails.add("captured-constraint-count", got=len(got), expected=len(flat))
        return
    pts, P = probe_points(names, k=7)
    for ci, ((sense, diff), cd) in enumerate(zip(flat, got)):
        cd = dict(cd)
        for key in ("fun", "jac"):
            if callable(cd.get(key)):
                cd[key] = InPlace(cd[key])
        want_type = "eq" if sense == "==" else "ineq"
        if cd.get("type") != want_type:
            fails.add("captured-constraint-type", index=ci, got=cd.get("type"), expected=want_type, sense=sense)
            return
        # boundary points: shift the first variable so that diff == 0 where possible (affine in it or not)
        v, g, H, ok, reg, ev, eg, eH = ref_jet(diff, names, pts, P, params or {})
        scale = None
        for k in np.flatnonzero(ok):
            x = np.array([pts[n][k] for n in names])
            try:
                fv = float(cd["fun"](x))
                if "jac" in cd and reg[k]:
                    cd["jac"](x)
            except Exception as ex:
                fails.add("exception:captured-constraint-fun:" + type(ex).__name__, index=ci, x=x, msg=str(ex)[:200])
                return
            if rep:
                rep.evaluations += 1
            d = float(v[k])
            tol = 1e-9 * max(1.0, abs(d)) + ev[k]
            if sense == "<=":
                sat, strict_viol = d <= tol, d > tol
            elif sense == ">=":
                sat, strict_viol = d >= -tol, d < -tol
            else:
                sat, strict_viol = abs(d) <= tol, abs(d) > tol
            if want_type == "ineq":
                if strict_viol and not fv < 0:
                    fails.add("captured-constraint-sign", index=ci, sense=sense, x=x, fun=fv, lhs_minus_rhs=d)
                    return
                if abs(d) > tol and sat and not fv > 0:
                    fails.add("captured-constraint-sign", index=ci, sense=sense, x=x, fun=fv, lhs_minus_rhs=d)
                    return
            else:
                if strict_viol and fv == 0:
                    fails.add("captured-constraint-sign", index=ci, sense=sense, x=x, fun=fv, lhs_minus_rhs=d)
                    return
            if abs(d) > 1e-6:
                s_here = fv / d
                if scale is None:
                    scale = s_here
                elif scale is not False and abs(s_here - scale) > 1e-9 * max(1, abs(scale)):
                    scale = False
            if "jac" in cd and reg[k]:
                jv = np.asarray(cd["jac"](x), dtype=float).reshape(-1)
                if rep:
                    rep.evaluations += jv.size
                if scale not in (None, False):
                    exp = scale * g[:, k]
                    if jv.shape != exp.shape or not close(jv, exp, abs(scale) * eg[:, k], REL_D).all():
                        fails.add("captured-constraint-jac", index=ci, sense=sense, x=x, got=jv, expected=exp,
                                  variables=names)
                        return
                else:
                    h = 1e-6
                    num = np.array([(float(cd["fun"](x + h * e)) - float(cd["fun"](x - h * e))) / (2 * h)
                                    for e in np.eye(len(names))])
                    if jv.shape != num.shape or not np.allclose(jv, num, rtol=1e-4, atol=1e-5):
                        fails.add("captured-constraint-jac", index=ci, sense=sense, x=x, got=jv, numeric=num)
                        return


def reference_callables(pr, names, params=None):
    """Hand-written objective / gradient / Hessian / constraints for a raw scipy.optimize.minimize call."""
    obj = pr[2] if pr[1] == "min" else ("un", "neg", pr[2])
    params = params or {}

    def jets(recipe, x):
        pts = {n: np.array([x[i]]) for i, n in enumerate(names)}
        v, g, H, ok, reg, *_ = ref_jet(recipe, names, pts, 1, params)
        return float(v[0]), g[:, 0].copy(), H[:, :, 0].copy()

    def fun(x):
        return jets(obj, x)[0]

    def jac(x):
        return jets(obj, x)[1]

    def hess(x):
        return jets(obj, x)[2]

    cons = []
    for sense, diff in PR.flat_constraints(pr):
        s = -1.0 if sense == "<=" else 1.0
        cons.append({
            "type": "eq" if sense == "==" else "ineq",
            "fun": (lambda x, d=diff, s=s: s * jets(d, x)[0]),
            "jac": (lambda x, d=diff, s=s: s * jets(d, x)[1]),
        })
    return fun, jac, hess, cons
