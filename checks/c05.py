"""C05  the LP optyx extracts is the model the user wrote (every spelling, coefficient vector, sense, order)."""

from __future__ import annotations

import itertools

from checks.common import Fails, Report, detuple, np, natural_key
from mc import problems as PR
from mc.interp import var_names
from mc.minimise import size
from mc.seams import Seam, result

ID = "C05"
LEVEL = "model_checking"
RULE = (
    "states = LP problem recipes: every spelling of an affine form a.x+k from the menu (plain / reflected / nested "
    "sums, c@v, v@c, LinearCombination, v.sum(), k*v.sum(), c@(v+k), (e)/2*2, (e)**1, e**0 terms, folded constants "
    "(Constant(a-1)+1)*x, x*(a/Constant(1)), -(-e), k-e, views v[::-1] and matrix rows/columns) x every coefficient "
    "vector of {-1,0,1,2}^n x k in {0,3,-2.5}, as objective (min/max) and as a constraint with each sense in the "
    "operand orders `e <= number`, `number >= e`, `e1 <= e2`; pairs of constraints (thorough); bounds menus; names "
    "whose natural order differs from lexicographic and construction order.  Only problems optyx itself treats as "
    "LP are in the quantifier (others are counted).  Every case that holds cold is repeated on WARM objects: a first "
    "problem P + zz is built, extracted and solved, then P + A0 (same column count, every column shifted) is built "
    "from the same variable / vector / matrix objects and checked against its own reference; plus left-deep accumulations "
    "of 399 / 401 / 700 linear terms (fresh or shared composite term objects, + and -) as objective, <= row and == row.  transitions = API calls on the real code (builder ops, "
    "extract(), extract_linear_coefficient, extract_constant_term, one captured solve); an evaluation = one "
    "coefficient / right-hand side / bound / column name compared with the exact polynomial of the recipe.  "
    "Non-trivial = LP with a non-zero coefficient; distinct by canonical problem recipe."
)
ASSUMPTIONS = ["exact affine coefficients from mc/alg.py PolyAlg (Fractions); float tolerance 1e-12 on extracted data"]

XA, XB = ("var", "x10"), ("var", "x9")       # built in this order; natural order is x9 < x10
V = ("vvar", "v", 3)
M = ("mvar", "M", 2, 2, False)
COEFS = (-1, 0, 1, 2)
KS = (0, 3, -2.5)
TOL = 1e-12


def near(got, exp):
    """element-wise closeness relative to each expected entry, with a floor relative to the scale of the whole array
    (an absolute tolerance would call a legitimately tiny coefficient 'zero')"""
    got, exp = np.asarray(got, dtype=float), np.asarray(exp, dtype=float)
    if got.shape != exp.shape:
        return False
    scale = float(np.max(np.abs(exp))) if exp.size else 0.0
    return bool(np.all(np.abs(got - exp) <= 1e-9 * np.abs(exp) + 1e-15 * scale))


def c(v):
    return ("c", v)


def add(*ts):
    r = ts[0]
    for t in ts[1:]:
        r = ("bin", "+", r, t)
    return r


def mul(a, b):
    return ("bin", "*", a, b)


def has_optional_lp_form(r):
    """True when the recipe divides by a constant-valued expression that is not a literal: optyx is free to give such a
    quotient no finite degree (property C04 only forbids degrees that are too SMALL), i.e. not to treat the model as an
    LP; when it does treat it as an LP, everything an LP must satisfy applies."""
    if not isinstance(r, tuple):
        return False
    if len(r) == 4 and r[0] == "bin" and r[1] == "/" and isinstance(r[3], tuple) and r[3][0] not in ("c", "C", "k") \
            and not PR.var_names(r[3]):
        return True
    return any(has_optional_lp_form(x) for x in r if isinstance(x, tuple))


def spell_scalar(a, k):
    """Spellings of a[0]*x10 + a[1]*x9 + k."""
    a0, a1 = a
    t0, t1 = mul(c(a0), XA), mul(c(a1), XB)
    base = add(t0, t1, c(k))
    out = [
        ("plain", base),
        ("reflected", add(c(k), mul(XA, c(a0)), mul(XB, c(a1)))),
        ("nested", add(add(t0, c(k)), t1)),
        ("negneg", ("un", "neg", ("bin", "-", ("bin", "-", mul(c(-a0), XA), t1), c(k)))),
        ("half-double", mul(("bin", "/", add(mul(c(2 * a0), XA), mul(c(2 * a1), XB), c(2 * k)), c(2)), c(1))),
        ("pow1", ("bin", "**", base, c(1))),
        ("pow0-term", add(base, mul(c(0), ("bin", "**", XA, c(0))))),
        ("pow0-const", add(t0, t1, mul(c(k), ("bin", "**", XB, c(0))))),
        ("folded-left", add(mul(("bin", "+", ("C", a0 - 1), ("C", 1)), XA), t1, c(k))),
        ("folded-right", add(mul(XA, ("bin", "/", ("C", a0), ("C", 1))), t1, c(k))),
        ("k-minus", ("bin", "-", c(k), add(mul(c(-a0), XA), mul(c(-a1), XB)))),
        ("div-const", add(("bin", "/", mul(c(4 * a0), XA), c(4)), t1, c(k))),
        ("neg-term", add(("un", "neg", mul(c(-a0), XA)), t1, c(k))),
        ("inner-const", add(mul(c(a0), ("bin", "+", XA, c(1))), t1, c(k - a0))),
        # divisors that are constant-valued but not literal Constants (the pinned tree does not treat these as LPs and
        # they are then skipped; a tree that does must extract the divided coefficient)
        ("div-folded-product", add(("bin", "/", mul(c(4 * a0), XA), mul(("C", 2), ("C", 2))), t1, c(k))),
        ("div-folded-quotient", add(("bin", "/", mul(c(5 * a0), XA), ("bin", "/", ("C", 10), ("C", 2))), t1, c(k))),
        ("div-folded-neg", add(("bin", "/", mul(c(-2 * a0), XA), ("un", "neg", ("C", 2))), t1, c(k))),
        ("div-folded-whole", ("bin", "/", add(mul(c(3 * a0), XA), mul(c(3 * a1), XB), c(3 * k)), ("bin", "+", ("C", 1), ("C", 2)))),
    ]
    return out


def spell_vector(a, k):
    """Spellings of a . v + k for a size-3 vector."""
    arr = ("arr", tuple(float(x) for x in a))
    rev = ("arr", tuple(float(x) for x in a[::-1]))
    els = [mul(c(a[i]), ("idx", V, i)) for i in range(3)]
    out = [
        ("c@v", add(("mm", arr, V), c(k))),
        ("v@c", add(("mm", V, arr), c(k))),
        ("LC", add(("LC", arr, V), c(k))),
        ("elements", add(*els, c(k))),
        ("c@(v+1)", add(("mm", arr, ("vbin", "+", V, c(1))), c(k - sum(a)))),
        ("LC(v*2)/2", add(("bin", "/", ("LC", arr, ("vbin", "*", V, c(2))), c(2)), c(k))),
        ("rev-view", add(("mm", rev, ("slice", V, None, None, -1)), c(k))),
        ("const-first", add(c(k), ("mm", arr, V))),
        ("minus-const", ("bin", "-", ("mm", arr, V), c(-k))),
        ("pow1", ("bin", "**", add(("mm", arr, V), c(k)), c(1))),
        ("scaled", mul(c(2), add(("mm", ("arr", tuple(x / 2 for x in a)), V), c(k / 2)))),
        ("split-views", add(("mm", ("arr", tuple(float(x) for x in a[:2])), ("slice", V, 0, 2, None)),
                            mul(c(a[2]), ("idx", V, 2)), c(k))),
    ]
    # linear node kinds beyond sum / c@v: a dot product with an expression vector of Constants, exponent-1 power sums
    out += [("v.dot(cvec)", add(("dot", V, ("cvec", tuple(float(x) for x in a))), c(k))),
            ("cvec.dot(v+1)", add(("dot", ("cvec", tuple(float(x) for x in a)), ("vbin", "+", V, c(1))), c(k - sum(a))))]
    if k == 0:
        out += [("bare-v.dot(cvec)", ("dot", V, ("cvec", tuple(float(x) for x in a))))]
    if len(set(a)) == 1:
        out += [("k*sum(v**1)", add(mul(c(a[0]), ("sum", ("vpow", V, 1))), c(k)))]
    # the coefficient data in other dtypes / as a list of Python ints (coefficient menus are integers)
    ai = tuple(int(x) for x in a)
    out += [("c@v:int64", add(("mm", ("arr", ai, "int"), V), c(k))), ("v@c:int32", add(("mm", V, ("arr", ai, "int32")), c(k))),
            ("LC:float32", add(("LC", ("arr", tuple(float(x) for x in a), "float32"), V), c(k))),
            ("c@v:list-of-ints", add(("mm", ("lst", ai), V), c(k))),
            ("c@(v+1):int64", add(("mm", ("arr", ai, "int"), ("vbin", "+", V, c(1))), c(k - sum(a))))]
    # integer coefficient data PLUS fractional extra terms on the same columns (a[1] = (a[1] - 1) + 0.5 + 0.5; a[2] = (a[2] + 1) - 0.25 * 4)
    am = (ai[0], ai[1] - 1, ai[2] + 1)
    halves = add(mul(c(0.5), ("idx", V, 1)), mul(c(0.5), ("idx", V, 1)))
    quarter = mul(c(0.25), mul(c(4), ("idx", V, 2)))
    out += [("c@v:int64+fractions", add(("bin", "-", ("bin", "+", ("mm", ("arr", am, "int"), V), halves), quarter), c(k))),
            ("c@v:list+fractions", add(("bin", "+", ("mm", ("lst", am), V), ("bin", "-", halves, quarter)), c(k))),
            ("fractions+LC:int32", add(("bin", "+", ("bin", "-", halves, quarter), ("LC", ("arr", am, "int32"), V)), c(k)))]
    if k == 0:
        out += [("bare-c@v:int64+fractions", ("bin", "+", ("mm", ("arr", am, "int"), V), ("bin", "-", halves, quarter)))]
    if k == 0:
        out += [("bare-c@v:int64", ("mm", ("arr", ai, "int"), V)), ("bare-LC:int32", ("LC", ("arr", ai, "int32"), V))]
    # every (vector node, constant) root shape in both operand orders: c@v op k, k op c@v, for op in + - * /
    neg = ("arr", tuple(-float(x) for x in a))
    half = ("arr", tuple(float(x) / 2 for x in a))
    dbl = ("arr", tuple(float(x) * 2 for x in a))
    out += [
        ("root:LC+k", ("bin", "+", ("mm", arr, V), c(k))), ("root:k+LC", ("bin", "+", c(k), ("mm", arr, V))),
        ("root:LC-k", ("bin", "-", ("mm", arr, V), c(-k))), ("root:k-LC", ("bin", "-", c(k), ("mm", neg, V))),
        ("root:k-LC(rev)", ("bin", "-", c(k), ("mm", ("arr", neg[1][::-1]), ("slice", V, None, None, -1)))),
    ]
    if k == 0:
        out += [("root:2*LC", mul(c(2), ("mm", half, V))), ("root:LC*2", mul(("mm", half, V), c(2))),
                ("root:LC/2", ("bin", "/", ("mm", dbl, V), c(2))), ("root:-LC", ("un", "neg", ("mm", neg, V)))]
    if len(set(a)) == 1 and a[0] in (1, -1):
        sm = ("sum", V)
        if a[0] == 1:
            out += [("root:sum+k", ("bin", "+", sm, c(k))), ("root:k+sum", ("bin", "+", c(k), sm)), ("root:sum-k", ("bin", "-", sm, c(-k)))]
        else:
            out += [("root:k-sum", ("bin", "-", c(k), sm)), ("root:k-sum(rev)", ("bin", "-", c(k), ("sum", ("slice", V, None, None, -1)))),
                    ("root:-sum+k", ("bin", "+", ("un", "neg", sm), c(k)))]
    # vector nodes over expression vectors that carry constants, BARE (no additive wrapper): c @ (v+1) has the
    # constant sum(a); (2v - 2) @ (a/2) has the constant -sum(a)
    if k == sum(a):
        vp1 = ("vbin", "+", V, c(1))
        out += [("bare-c@(v+1)", ("mm", arr, vp1)), ("bare-LC(v+1)", ("LC", arr, vp1)), ("bare-(v+1)@c", ("mm", vp1, arr)),
                ("bare-c@(1+v)", ("mm", arr, ("rvbin", "+", c(1), V)))]
    if k == -sum(a):
        out += [("bare-(2v-2)@(a/2)", ("mm", ("vbin", "-", ("vbin", "*", V, c(2)), c(2)), half)),
                ("bare-LC(a/2,2v-2)", ("LC", half, ("vbin", "-", ("vbin", "*", V, c(2)), c(2))))]
    if k == 0:     # bare roots: the single-node fast paths of the extractor
        out += [
            ("bare-c@v", ("mm", arr, V)), ("bare-LC", ("LC", arr, V)),
            ("bare-rev-view", ("mm", rev, ("slice", V, None, None, -1))),
            ("bare-LC-expr", ("LC", arr, ("vbin", "*", V, c(1)))),
        ]
        if len(set(a)) == 1:
            out += [("bare-k*sum", mul(c(a[0]), ("sum", V))), ("bare-sum*k", mul(("sum", V), c(a[0]))),
                    ("bare-k*sum(rev)", mul(c(a[0]), ("sum", ("slice", V, None, None, -1)))),
                    ("bare-sum(rev)*k", mul(("sum", ("slice", V, None, None, -1)), c(a[0])))]
            if a[0] == 1:
                out += [("bare-sum", ("sum", V)), ("bare-sum(rev)", ("sum", ("slice", V, None, None, -1)))]
    if len(set(a)) == 1:
        s = a[0]
        out += [
            ("k*sum", add(mul(c(s), ("sum", V)), c(k))),
            ("sum*k", add(mul(("sum", V), c(s)), c(k))),
            ("sum(rev)*k", add(mul(c(s), ("sum", ("slice", V, None, None, -1))), c(k))),
            ("vector_sum", add(mul(c(s), ("vsum", V)), c(k))),
        ]
        if s == 1:
            out += [("sum-k", ("bin", "-", ("sum", V), c(-k))), ("sum", add(("sum", V), c(k)))]
    return out


def spell_matrix(a, k):
    """a . (M00, M01, M10, M11)[:3]-ish forms through rows / columns of a 2x2 matrix."""
    r0 = ("row", M, 0, None, None, None)
    c1 = ("col", ("T", M), None, None, None, 1)      # M.T[:,1] == row 1 of M
    out = [
        ("rows", add(mul(c(a[0]), ("sum", r0)), mul(c(a[1]), ("sum", c1)), c(k))),
        ("row-lincomb", add(("mm", ("arr", (float(a[0]), float(a[1]))), r0), mul(c(a[2]), ("midx", M, 1, 1)), c(k))),
        ("diag", add(mul(c(a[0]), ("sum", ("diag", M))), mul(c(a[1]), ("midx", M, 0, 1)), c(k))),
        ("trace", add(mul(c(a[0]), ("trace", M)), mul(c(a[2]), ("midx", M, 1, 0)), c(k))),
    ]
    return out


BOUNDS = [(), (("lb", 0),), (("lb", 0), ("ub", 3)), (("lb", -1), ("ub", 1)), (("ub", 2),)]


def all_cases(tier):
    two = list(itertools.product(COEFS, repeat=2))
    three = list(itertools.product(COEFS, repeat=3))
    # objectives
    for a in two:
        for k in KS:
            for lab, r in spell_scalar(a, k):
                for sense in ("min", "max"):
                    yield ("obj", lab), PR.prob(sense, r, (), ((("x9"), BOUNDS[1]), ("x10", BOUNDS[2])))
    for a in three:
        for k in KS:
            for lab, r in spell_vector(a, k):
                yield ("obj", lab), PR.prob("min", r, (), (("v", BOUNDS[1]),))
                if tier == "thorough":
                    yield ("obj", lab), PR.prob("max", r, (), (("v", BOUNDS[3]),))
            for lab, r in spell_matrix(a, k):
                yield ("obj", lab), PR.prob("max", r, (), (("M", BOUNDS[2]),))
    # single constraints in three operand orders
    objs = add(XA, XB)
    objv = ("sum", V)
    other_s = add(mul(c(1), XA), mul(c(-1), XB), c(0.5))
    other_v = add(("mm", ("arr", (1.0, -1.0, 0.0)), V), c(0.5))
    for sense in ("<=", ">=", "=="):
        for a in two:
            for k in KS:
                for lab, r in spell_scalar(a, k):
                    yield ("con", lab, sense, "e~n"), PR.prob("min", objs, (("cmp", sense, r, c(1.5)),))
                    yield ("con", lab, sense, "n~e"), PR.prob("min", objs, (("cmp", sense, c(1.5), r),))
                    yield ("con", lab, sense, "e~e"), PR.prob("min", objs, (("cmp", sense, r, other_s),))
        for a in three:
            for k in KS:
                for lab, r in spell_vector(a, k):
                    yield ("con", lab, sense, "e~n"), PR.prob("min", objv, (("cmp", sense, r, c(1.5)),))
                    if tier == "thorough" or lab.startswith("bare") or lab.startswith("root:") or lab in ("c@v", "c@(v+1)", "rev-view", "sum-k", "k*sum", "pow1"):
                        yield ("con", lab, sense, "n~e"), PR.prob("min", objv, (("cmp", sense, c(1.5), r),))
                        yield ("con", lab, sense, "e~e"), PR.prob("min", objv, (("cmp", sense, r, other_v),))
    # vector / matrix constraints (one row per element), foreign variables around the vector
    A2 = ("arr2", ((1.0, 2.0, 0.0), (-1.0, 0.0, 3.0)))
    for sense in ("<=", ">=", "=="):
        yield ("vcon", "A@v", sense), PR.prob("min", objv, (("cmp", sense, ("mv", A2, V), ("arr", (1.0, -2.0))),))
        yield ("vcon", "v~arr", sense), PR.prob("min", objv, (("cmp", sense, V, ("arr", (1.0, 2.0, 3.0))),))
        yield ("vcon", "v+1~n", sense), PR.prob("max", objv, (("cmp", sense, ("vbin", "+", V, c(1)), c(2)),))
        yield ("vcon", "M~n", sense), PR.prob("max", ("sum", ("row", M, 0, None, None, None)), (("cmp", sense, M, c(2)),))
        for extra in (("var", "a0"), ("var", "zz")):
            for lab, r in spell_vector((1, 2, -1), 3):
                yield ("foreign", lab, sense, extra[1]), PR.prob(
                    "min", add(("mm", ("arr", (1.0, 1.0, 2.0)), V), extra), (("cmp", sense, add(r, extra), c(4)),))
    # bounds menus and orientation
    for bm in BOUNDS:
        for bm2 in BOUNDS:
            for sense in ("min", "max"):
                yield ("bounds",), PR.prob(sense, add(mul(c(2), XA), XB, c(1)), (("cmp", "<=", add(XA, XB), c(4)),),
                                           (("x10", bm), ("x9", bm2)))
                yield ("bounds-v",), PR.prob(sense, ("mm", ("arr", (1.0, 2.0, 3.0)), V),
                                             (("cmp", ">=", ("sum", V), c(1)),), (("v", bm),))
    # coefficient MAGNITUDES: the whole model scaled by 1e-11 / 1e9, and legitimately tiny coefficients next to O(1) ones
    for sc in (1e-11, 1e9):
        S = c(sc)
        for lab, r in [spell_scalar((2, -1), 3)[i] for i in (0, 3, 5, 8)]:
            for sense in ("<=", ">=", "=="):
                yield ("scaled", lab, sense, sc), PR.prob("min", mul(S, r), (("cmp", sense, mul(S, r), mul(S, c(1.5))),))
        for lab, r in [spell_vector((2, -1, 1), 3)[i] for i in (0, 2, 3, 4)]:
            for sense in ("<=", ">=", "=="):
                yield ("scaled", lab, sense, sc), PR.prob("max", mul(S, r), (("cmp", sense, mul(S, r), mul(S, c(1.5))),
                                                                                ("cmp", ">=", add(("sum", V), ("var", "zz")), c(1))))
    tiny = c(3e-12)
    for sense in ("<=", ">=", "=="):
        yield ("mixed-scale", "scalar", sense), PR.prob("min", add(mul(tiny, XA), mul(c(2), XB), c(1)),
                                                        (("cmp", sense, add(mul(c(7e-11), XA), XB), c(1.5)),))
        yield ("mixed-scale", "vector", sense), PR.prob("min", add(("mm", ("arr", (3e-12, 2.0, 5e-11)), V), ("var", "zz")),
                                                        (("cmp", sense, add(("mm", ("arr", (1.0, 7e-11, -4e-12)), V), ("var", "zz")), c(1)),))
    # pairs of constraints: row order and ub/eq split
    reps_s = [spell_scalar((2, -1), 3)[i] for i in (0, 5, 8, 13)]
    reps_v = [spell_vector((2, -1, 1), 3)[i] for i in (0, 4, 6, 9)]
    senses = ("<=", ">=", "==")
    for (l1, r1), (l2, r2) in itertools.product(reps_s, repeat=2):
        for s1, s2 in itertools.product(senses, repeat=2):
            yield ("pair", l1, l2, s1, s2), PR.prob("min", objs, (("cmp", s1, r1, c(1)), ("cmp", s2, c(2), r2)))
    for (l1, r1), (l2, r2) in itertools.product(reps_v, repeat=2):
        for s1, s2 in itertools.product(senses, repeat=2):
            yield ("pair", l1, l2, s1, s2), PR.prob("max", objv, (("cmp", s1, r1, c(1)), ("cmp", s2, c(2), r2)))


NSH = 32


def shards(tier, seed):
    return [(i, NSH) for i in range(NSH)]


def shifted(pr, extra):
    """the same problem with one more scalar variable in the objective (shifts the column positions of all others)"""
    return ("prob", pr[1], ("bin", "+", pr[2], ("var", extra))) + tuple(pr[3:])


def check_warm_objects(pr, tier, seed, rep=None, want=None, label=None):
    """Non-initial variable / vector objects: a first problem D = P + zz (zz sorts last) is built, extracted and solved,
    then T = P + A0 (A0 sorts first: same number of columns, every column of P shifted by one) is built from the SAME
    variable, vector and matrix objects and checked against its own reference."""
    from optyx import analysis

    D, T = shifted(pr, "zz"), shifted(pr, "A0")
    try:
        PD, b, _ = PR.build_problem(D)
        if not PD._is_linear_problem():
            return Fails(want)
        analysis.LinearProgramExtractor().extract(PD)
        with Seam(script=[lambda call: result(np.zeros(len(call.kw["c"])), fun=0.0)]):
            PD.solve()
    except Exception:
        return Fails(want)          # the cold checks report build / extraction errors
    fs = check_problem(T, tier, seed, rep, want, label, builder=b)
    out = Fails()
    for k, d in fs:
        out.append((k if want is not None else k + ":warm-objects", d))
    return out


def check_problem(pr, tier, seed, rep=None, want=None, label=None, builder=None):
    from optyx import analysis

    fails = Fails(want)
    try:
        P, b, built = PR.build_problem(pr, builder)
    except Exception as ex:
        fails.add("exception:build:" + type(ex).__name__, msg=str(ex)[:200])
        return fails
    if rep:
        rep.states += 1
        rep.transitions += size(pr[2]) + sum(size(cn) for cn in pr[3]) + 2
    try:
        is_lp = P._is_linear_problem()
    except Exception as ex:
        fails.add("exception:_is_linear_problem:" + type(ex).__name__, msg=str(ex)[:200])
        return fails
    if not is_lp:
        if rep:
            rep.skipped["not_treated_as_LP_by_optyx"] += 1
            rep.outcomes["not-LP"] += 1
        return fails
    try:
        lp = analysis.LinearProgramExtractor().extract(P)
    except Exception as ex:
        fails.add("exception:extract:" + type(ex).__name__, msg=str(ex)[:200])
        return fails
    names = PR.problem_var_names(pr)
    n = len(names)
    ev = 0
    if list(lp.variables) != names:
        fails.add("columns-not-the-natural-sorted-variables", got=list(lp.variables), expected=names)
        return fails
    aff = PR.affine_of(pr[2], names)
    if aff is None:
        fails.add("treated-as-LP-but-objective-not-affine", objective=pr[2])
        return fails
    coef, const = aff
    cvec = np.asarray(lp.c, dtype=float)
    ev += n + 2
    if cvec.shape != (n,) or not near(cvec, coef):
        fails.add("objective-coefficients", got=cvec, expected=coef, variables=names)
    if lp.sense != pr[1]:
        fails.add("objective-sense", got=lp.sense, expected=pr[1])
    try:
        c0 = analysis.extract_constant_term(P.objective)
        if abs(c0 - const) > TOL * max(1, abs(const)):
            fails.add("objective-constant", got=c0, expected=const)
        for i, v in enumerate(P.variables):
            ci = analysis.extract_linear_coefficient(P.objective, v)
            ev += 1
            if abs(ci - coef[i]) > TOL * max(1, abs(coef[i])):
                fails.add("extract_linear_coefficient", variable=v.name, got=ci, expected=coef[i])
                break
    except Exception as ex:
        fails.add("exception:extract_constant_term:" + type(ex).__name__, msg=str(ex)[:200])
    # constraints
    ub_rows, ub_rhs, eq_rows, eq_rhs = [], [], [], []
    for sense, diff in PR.flat_constraints(pr):
        a = PR.affine_of(diff, names)
        if a is None:
            fails.add("treated-as-LP-but-constraint-not-affine", constraint=diff)
            return fails
        row, k = np.array(a[0]), a[1]
        if sense == "<=":
            ub_rows.append(row); ub_rhs.append(-k)
        elif sense == ">=":
            ub_rows.append(-row); ub_rhs.append(k)
        else:
            eq_rows.append(row); eq_rhs.append(-k)

    def cmp_block(tag, A, bvec, rows, rhs, eq):
        nonlocal ev
        if not rows:
            if A is not None or bvec is not None:
                fails.add(tag + "-present-without-constraints", A=A, b=bvec)
            return
        if A is None or bvec is None:
            fails.add(tag + "-missing", expected_rows=len(rows))
            return
        A = np.asarray(A, dtype=float); bvec = np.asarray(bvec, dtype=float)
        if A.shape != (len(rows), n) or bvec.shape != (len(rows),):
            fails.add(tag + "-shape", got=A.shape, expected=(len(rows), n))
            return
        for i, (row, r) in enumerate(zip(rows, rhs)):
            ev += n + 1
            rs_ = max(float(np.max(np.abs(row))) if len(row) else 0.0, abs(r))
            same = near(A[i], row) and abs(bvec[i] - r) <= 1e-9 * abs(r) + 1e-15 * rs_
            flipped = eq and near(A[i], -np.asarray(row)) and abs(bvec[i] + r) <= 1e-9 * abs(r) + 1e-15 * rs_
            if not (same or flipped):
                fails.add(tag + "-row", index=i, got_row=A[i], got_rhs=float(bvec[i]), expected_row=row, expected_rhs=r,
                          variables=names)
                return

    cmp_block("A_ub", lp.A_ub, lp.b_ub, ub_rows, ub_rhs, False)
    cmp_block("A_eq", lp.A_eq, lp.b_eq, eq_rows, eq_rhs, True)
    exp_bounds = [PR.declared_bounds(pr, nm)[:2] for nm in names]
    ev += n
    got_bounds = [tuple(bd) for bd in lp.bounds]
    if len(got_bounds) != n or any(
        (g[0] is None) != (e[0] is None) or (g[1] is None) != (e[1] is None)
        or (g[0] is not None and float(g[0]) != float(e[0])) or (g[1] is not None and float(g[1]) != float(e[1]))
        for g, e in zip(got_bounds, exp_bounds)
    ):
        fails.add("bounds", got=got_bounds, expected=exp_bounds, variables=names)
    # extracting again from the same problem (a fresh extractor, no cache involved) must give the same LP: extraction
    # must not modify the model it reads
    try:
        lp2 = analysis.LinearProgramExtractor().extract(P)
        for fld in ("c", "A_ub", "b_ub", "A_eq", "b_eq"):
            a1, a2 = getattr(lp, fld), getattr(lp2, fld)
            ev += 1
            if (a1 is None) != (a2 is None) or (a1 is not None and not np.array_equal(np.asarray(a1, dtype=float), np.asarray(a2, dtype=float))):
                fails.add("second-extraction-differs:" + fld, first=a1, second=a2)
                break
    except Exception as ex:
        fails.add("exception:second-extraction:" + type(ex).__name__, msg=str(ex)[:200])
    # what reaches linprog (capture mode with a scripted answer: no real solve needed)
    try:
        with Seam(script=[lambda call: result(np.zeros(n), fun=0.0)]) as s:
            P.solve()
        if rep:
            rep.transitions += 1
        if len(s.calls) != 1 or s.calls[0].kind != "linprog":
            fails.add("auto-solve-did-not-call-linprog-once", calls=[cl.kind for cl in s.calls])
        else:
            kw = s.calls[0].kw
            sign = -1.0 if pr[1] == "max" else 1.0
            ev += n
            if not near(np.asarray(kw["c"], dtype=float), sign * np.asarray(coef)):
                fails.add("linprog-c", got=kw["c"], expected=sign * np.asarray(coef))
            for key, rows, rhs in (("A_ub", ub_rows, ub_rhs), ("A_eq", eq_rows, eq_rhs)):
                bkey = "b" + key[1:]
                if rows:
                    gotA = None if kw.get(key) is None else np.asarray(kw[key], dtype=float)
                    gotb = None if kw.get(bkey) is None else np.asarray(kw[bkey], dtype=float)
                    expA, expb = np.array(rows, dtype=float), np.array(rhs, dtype=float)
                    okk = gotA is not None and gotb is not None and gotA.shape == expA.shape and gotb.shape == expb.shape
                    if okk:
                        for i_ in range(len(rows)):
                            same_ = near(gotA[i_], expA[i_]) and near(gotb[i_:i_ + 1], expb[i_:i_ + 1])
                            flip_ = key == "A_eq" and near(gotA[i_], -expA[i_]) and near(gotb[i_:i_ + 1], -expb[i_:i_ + 1])
                            if not (same_ or flip_):
                                okk = False
                                break
                    if not okk:
                        fails.add("linprog-" + key, got=kw.get(key), got_rhs=kw.get(bkey), expected=rows, expected_rhs=rhs)
                elif kw.get(key) is not None:
                    fails.add("linprog-" + key + "-unexpected", got=kw.get(key))
            gb = [tuple(bd) for bd in kw.get("bounds", [(None, None)] * n)]
            if [(None if g[0] is None else float(g[0]), None if g[1] is None else float(g[1])) for g in gb] != \
                    [(None if e[0] is None else float(e[0]), None if e[1] is None else float(e[1])) for e in exp_bounds]:
                fails.add("linprog-bounds", got=gb, expected=exp_bounds)
    except Exception as ex:
        fails.add("exception:solve:" + type(ex).__name__, msg=str(ex)[:200])
    if rep:
        rep.evaluations += ev
        rep.outcomes["LP"] += 1
        if any(coef) or ub_rows or eq_rows:
            rep.nt(pr)
    return fails


def deep_model(n, shared, op):
    """left-deep accumulation of n linear terms -> (expression, names, exact coefficients, exact constant)"""
    import optyx

    names = ["x[0]", "x[1]", "x[2]", "y"]
    x = optyx.VectorVariable("x", 3, lb=0.0, ub=4.0)
    y = optyx.Variable("y", lb=-1.0, ub=2.0)

    def fee():
        return 2 * x[0] + 3 * y - 1

    kinds = [
        (lambda: x[0], {"x[0]": 1.0}, 0.0),
        (lambda: 2 * x[1], {"x[1]": 2.0}, 0.0),
        (fee, {"x[0]": 2.0, "y": 3.0}, -1.0),
        (lambda: x[2] * 0.5 + 0.25, {"x[2]": 0.5}, 0.25),
        (lambda: -(y - x[1]), {"y": -1.0, "x[1]": 1.0}, 0.0),
    ]
    cache = {}

    def term(k):
        if shared:
            if k not in cache:
                cache[k] = kinds[k][0]()
            return cache[k]
        return kinds[k][0]()

    coef = {nm: 0.0 for nm in names}
    const = 0.0
    acc = None
    for i in range(n):
        k = i % len(kinds)
        sgn = 1.0 if (i == 0 or op == "+") else -1.0
        t = term(k)
        acc = t if acc is None else (acc + t if op == "+" else acc - t)
        for nm, a in kinds[k][1].items():
            coef[nm] += sgn * a
        const += sgn * kinds[k][2]
    return acc, names, coef, const, y


def check_deep(n, shared, op, rep=None, want=None):
    """LP data of term-by-term accumulations deeper than the switch to explicit-stack traversals (n terms, left-deep),
    as objective and as constraint, with composite terms that are fresh objects or ONE shared object."""
    import optyx
    from optyx import analysis

    fails = Fails(want)
    acc, names, coef, const, y = deep_model(n, shared, op)
    tag = {"n": n, "shared_term_objects": shared, "op": op}
    if rep:
        rep.states += 1
        rep.transitions += n + 4
        rep.nt(("deep", n, shared, op))
    try:
        P = optyx.Problem().minimize(acc).subject_to(acc <= 5).subject_to((acc + y).eq(2))
        if not P._is_linear_problem():
            fails.add("deep-accumulation-not-treated-as-LP", **tag)
            return fails
        lp = analysis.LinearProgramExtractor().extract(P)
        c0 = analysis.extract_constant_term(P.objective)
    except RecursionError:
        fails.add("RecursionError:deep-LP-extraction", **tag)
        return fails
    except Exception as ex:
        fails.add("exception:deep-LP-extraction:" + type(ex).__name__, msg=str(ex)[:200], **tag)
        return fails
    exp = np.array([coef[nm] for nm in names])
    if rep:
        rep.evaluations += 3 * len(names) + 3
    if list(lp.variables) != names:
        fails.add("columns-not-the-natural-sorted-variables", got=list(lp.variables), expected=names, **tag)
        return fails
    if not np.allclose(np.asarray(lp.c, dtype=float), exp, rtol=1e-9, atol=1e-9):
        fails.add("objective-coefficients:deep", got=np.asarray(lp.c), expected=exp, **tag)
    if abs(c0 - const) > 1e-9 * max(1, abs(const)):
        fails.add("objective-constant:deep", got=c0, expected=const, **tag)
    A_ub, b_ub = np.asarray(lp.A_ub, dtype=float), np.asarray(lp.b_ub, dtype=float)
    if A_ub.shape != (1, 4) or not np.allclose(A_ub[0], exp, rtol=1e-9, atol=1e-9) or abs(b_ub[0] - (5 - const)) > 1e-9 * max(1, abs(const)):
        fails.add("A_ub-row:deep", got_row=A_ub, got_rhs=b_ub, expected_row=exp, expected_rhs=5 - const, **tag)
    expe = exp + np.array([0.0, 0.0, 0.0, 1.0])
    A_eq, b_eq = np.asarray(lp.A_eq, dtype=float), np.asarray(lp.b_eq, dtype=float)
    ok_eq = A_eq.shape == (1, 4) and ((np.allclose(A_eq[0], expe, rtol=1e-9, atol=1e-9) and abs(b_eq[0] - (2 - const)) <= 1e-9 * max(1, abs(const)))
                                      or (np.allclose(A_eq[0], -expe, rtol=1e-9, atol=1e-9) and abs(b_eq[0] + (2 - const)) <= 1e-9 * max(1, abs(const))))
    if not ok_eq:
        fails.add("A_eq-row:deep", got_row=A_eq, got_rhs=b_eq, expected_row=expe, expected_rhs=2 - const, **tag)
    return fails


DEEP = [(n, sh, op) for n in (399, 401, 700) for sh in (False, True) for op in ("+", "-")]


def explore(item, tier, seed):
    i, n = item
    rep = Report()
    if i == 1 % n:
        from checks import lpfamily as _F      # (lpfamily imports this module: resolved at call time)

        for _, lab_, pr_, _m in _F.view_family():
            fs = check_problem(pr_, tier, seed, rep, label=lab_)
            seen_ = set()
            for kind, d in fs:
                if kind not in seen_:
                    seen_.add(kind)
                    rep.violation(kind, {"label": lab_, "problem": pr_}, **d)
    if i == 1 % n:
        for (dom, ed, tm) in BOUND_EDITS:
            for kind, d in check_bound_edit(dom, ed, tm, rep):
                rep.violation(kind, {"label": ("bound-edit", dom, tm), "problem": None, "bound_edit": [dom, list(ed), tm]}, **d)
    if i == 0:
        for (dn, sh, op) in DEEP:
            for kind, d in check_deep(dn, sh, op, rep):
                rep.violation(kind, {"label": ("deep", dn, sh, op), "problem": None, "deep": [dn, sh, op]}, **d)
    for k, (label, pr) in enumerate(all_cases(tier)):
        if k % n != i:
            continue
        fs = check_problem(pr, tier, seed, rep, label=label)
        seen = set()
        for kind, d in fs:
            if kind not in seen:
                seen.add(kind)
                rep.violation(kind, {"label": label, "problem": pr}, **d)
        if not fs:
            for kind, d in check_warm_objects(pr, tier, seed, rep, label=label):
                if kind not in seen:
                    seen.add(kind)
                    rep.violation(kind, {"label": label, "problem": pr, "warm": True}, **d)
        if rep.states % 301 == 1:
            rep.sample({"label": label, "problem": pr})
    return rep


BOUND_EDITS = [(d, e, t) for d in ("continuous", "integer", "binary") for e in (("ub", 0.0), ("lb", 1.0), ("ub", 0.5), ("lb", 0.25), ("ub", None))
               for t in ("before-first-extraction", "after-extraction-and-solve")]


def check_bound_edit(domain, edit, timing, rep=None, want=None):
    """bounds EDITED on a variable object after it was declared (a switch fixed off: y.ub = 0) - before anything was
    extracted, or on a warm problem - are the declared bounds from then on, for every domain"""
    import warnings

    import optyx
    from optyx import analysis

    fails = Fails(want)
    x = optyx.Variable("x", lb=0.0, ub=10.0)
    y = optyx.Variable("y", lb=0.0, ub=1.0, domain=domain)
    z = optyx.VectorVariable("z", 2, lb=0.0, ub=1.0, domain=domain)
    P = optyx.Problem().minimize(x + 2 * y + z[0] + 3 * z[1]).subject_to(x + y + z[0] + z[1] >= 1)
    with warnings.catch_warnings():
        warnings.simplefilter("ignore")
        try:
            if timing == "after-extraction-and-solve":
                analysis.LinearProgramExtractor().extract(P)
                with Seam(script=[lambda call: result(np.zeros(len(call.kw["c"])), fun=0.0)]):
                    P.solve()
            for v in (y, z[1]):
                setattr(v, edit[0], edit[1])
            lp = analysis.LinearProgramExtractor().extract(P)
            with Seam(script=[lambda call: result(np.zeros(len(call.kw["c"])), fun=0.0)]) as s:
                P.solve()
        except Exception as ex:
            fails.add("exception:bound-edit:" + type(ex).__name__, msg=str(ex)[:200])
            return fails
    if rep:
        rep.states += 1
        rep.transitions += 6
        rep.evaluations += 2
        rep.nt(("bound-edit", domain, edit, timing))
    names = [v.name for v in P.variables]
    exp = [(v.lb, v.ub) for v in P.variables]
    got = [tuple(b) for b in lp.bounds]
    if list(lp.variables) != names or got != exp:
        fails.add("bounds:after-edit", names=list(lp.variables), got=got, expected=exp)
    lin = [cl for cl in s.calls if cl.kind == "linprog"]
    if lin:
        gb = [tuple(b) for b in (lin[0].kw.get("bounds") or [])]
        if gb != exp:
            fails.add("bounds-at-back-end:after-edit", got=gb, expected=exp)
    return fails


def culprit(v):
    if v["case"].get("bound_edit"):
        return {"kind": v["kind"], "domain": v["case"]["bound_edit"][0], "timing": v["case"]["bound_edit"][2]}
    # the spelling label identifies the failing construct; coefficients are abstracted away
    lab = detuple(v["case"]["label"])
    return {"kind": v["kind"], "spelling": lab[:2] if lab[0] in ("obj", "con") else lab[:2]}


def replay(art):
    kind = art["culprit"]["kind"]
    if art["violation"]["case"].get("bound_edit"):
        dom, ed, tm = art["violation"]["case"]["bound_edit"]
        return [{"kind": k, "detail": d} for k, d in check_bound_edit(dom, tuple(ed), tm, None, want=kind)]
    if art["violation"]["case"].get("deep"):
        dn, sh, op = art["violation"]["case"]["deep"]
        return [{"kind": k, "detail": d} for k, d in check_deep(dn, sh, op, None, want=kind)]
    pr = detuple(art["violation"]["case"]["problem"])
    if art["violation"]["case"].get("warm"):
        fs = check_warm_objects(pr, "quick", 0, None, want=kind.replace(":warm-objects", ""))
        return [{"kind": k + ":warm-objects", "detail": d} for k, d in fs]
    fs = check_problem(pr, "quick", 0, None, want=kind)
    return [{"kind": k, "detail": d} for k, d in fs]
