"""C16  a problem's variables are exactly those it mentions, in natural order, with the declared bounds."""

from __future__ import annotations

import itertools
import json
import os
import subprocess
import sys

from checks.common import Fails, Report, detuple, np, natural_key, threshold
from mc import problems as PR
from mc.build import Builder
from mc.interp import var_names
from mc.minimise import size
from mc.seams import Seam, result

ID = "C16"
LEVEL = "model_checking"
RULE = (
    "states = problem recipes objective x constraint list (<=2 quick, <=3 thorough) drawn from menus built around "
    "the single-vector shortcut: each vector node over the same vector object, over another view of it (slice, "
    "stepped, reversed, matrix row / column / diagonal / transposed row), over another vector; scalar terms; "
    "constant-only and parameter-only terms; mixes v.sum()+s, c@v with a scalar constraint, v.sum()+v.dot(w+1); "
    "matrix sums; vector- and matrix-valued constraints; names whose natural order differs from lexicographic and "
    "construction order (x[10] vs x[9], x10/x9, b before a, A[1,10]).  Every problem is queried through "
    ".variables, .n_variables, get_bounds() and the keys of Solution.values, in both orders of first access, with "
    "the recursive and with the iterative variable walk, and the whole enumeration is repeated in child processes "
    "with PYTHONHASHSEED 1 and 2 (transitions = those API calls + builder ops + one captured solve).  Oracle: the "
    "syntactic variable set of the recipe (computed by the reference interpreter, not by optyx), unique by name, "
    "in natural-sort order; get_bounds()[i] and the domain are those declared for variables[i] (each element is "
    "given its own bounds); problems with <=1 constraint are also reached as a NON-INITIAL object: built with another "
    "objective of the menu (two fixed rotations), read and solved once, then the objective replaced.  Non-trivial = problem with >=2 variables; distinct by recipe."
)
ASSUMPTIONS = ["natural order = split on digit runs, numeric comparison of the digit runs (as documented by optyx)"]

X11 = ("vvar", "x", 11)
W3 = ("vvar", "w", 3)
M = ("mvar", "A", 2, 11, False)
S = ("mvar", "S", 3, 3, True)
s_, t_ = ("var", "s"), ("var", "t")
x10, x9 = ("var", "x10"), ("var", "x9")
b_, a_ = ("var", "b"), ("var", "a")
P_ = ("par", "p")


def c(v):
    return ("c", v)


def add(a, b):
    return ("bin", "+", a, b)


def objectives():
    v = X11
    rev = ("slice", v, None, None, -1)
    return [
        ("sum(v)", ("sum", v)), ("c@v", ("mm", ("arr", tuple(float(i) for i in range(11))), v)),
        ("v.v", ("dot", v, v)), ("sum(v**2)", ("sum", ("vpow", v, 2))), ("sum(sin v)", ("sum", ("vun", "sin", v))),
        ("sum(rev)", ("sum", rev)), ("sum(v[8:])", ("sum", ("slice", v, 8, None, None))),
        ("sum(v[::5])", ("sum", ("slice", v, None, None, 5))), ("rev.rev", ("dot", rev, rev)),
        ("v.rev", ("dot", v, rev)), ("sum(rev**2)", ("sum", ("vpow", rev, 2))),
        ("v[9:].w[1:]", ("dot", ("slice", v, 9, None, None), ("slice", W3, 1, None, None))),
        ("sum(v)+s", add(("sum", v), s_)), ("sum(v)+v.(w+1)", add(("sum", ("slice", v, 8, None, None)),
                                                                    ("dot", ("slice", v, 8, None, None), ("vbin", "+", W3, c(1))))),
        ("LC(expr)", ("LC", ("arr", (1.0, 2.0, 3.0)), ("vbin", "*", W3, c(2)))),
        ("sum(A)", ("msum", M)), ("sum(A[1,:])", ("sum", ("row", M, 1, None, None, None))),
        ("sum(A.T[10,:])", ("sum", ("row", ("T", M), 10, None, None, None))),
        ("sum(diag S)", ("sum", ("diag", S, "m"))), ("trace S", ("trace", S)), ("sum(S)", ("msum", S)),
        ("sum(S[:,0])", ("sum", ("col", S, None, None, None, 0))), ("sum(S[2,:])", ("sum", ("row", S, 2, None, None, None))),
        ("const", ("C", 3.0)), ("param", ("bin", "*", P_, c(2))), ("x10+x9", add(x10, x9)), ("b+a", add(b_, a_)),
        ("x10**2/x9", ("bin", "/", ("bin", "**", x10, c(2)), ("un", "exp", x9))),
        ("-|sum(v)|", ("un", "neg", ("un", "abs", ("sum", v)))), ("p*sum(rev)", ("bin", "*", P_, ("sum", rev))),
        ("sum(v)*sum(v)", ("bin", "*", ("sum", v), ("sum", v))), ("sum(v-w..)", ("sum", ("vbin", "-", ("slice", v, 0, 3, None), W3))),
        ("norm(rev)", ("norm", rev, 2)), ("qform(w)", ("qform", W3, ("arr2", ((1.0, 0, 0), (0, 2.0, 0), (0, 0, 3.0))))),
        # views that collide on (label, length) but select different elements: x[::5] / x[::4], w[::2] / w[:0:-1]
        ("sum(v[::4])", ("sum", ("slice", v, None, None, 4))),
        ("v[::5].v[::4]", ("dot", ("slice", v, None, None, 5), ("slice", v, None, None, 4))),
        ("sum(v[::5])+c@v[::4]", add(("sum", ("slice", v, None, None, 5)), ("mm", ("arr", (1.0, 2.0, 3.0)), ("slice", v, None, None, 4)))),
        ("sum(w[::2])", ("sum", ("slice", W3, None, None, 2))),
        ("w[::2].w[:0:-1]", ("dot", ("slice", W3, None, None, 2), ("slice", W3, None, 0, -1))),
        ("sum(w[::2]**2)+sum(w[:0:-1])", add(("sum", ("vpow", ("slice", W3, None, None, 2), 2)), ("sum", ("slice", W3, None, 0, -1)))),
        ("frob(S)", ("frob", S)), ("x10**x9", ("bin", "**", x10, x9)), ("2**x9+x10", add(("bin", "**", c(2), x9), x10)),
        ("s/t", ("bin", "/", s_, t_)), ("exp(s)**t", ("bin", "**", ("un", "exp", s_), ("un", "sin", t_))),
    ] + block_objectives() + digit_name_objectives()


def digit_name_objectives():
    """containers whose BASE NAME embeds a number (x2 / x10: numeric order != lexicographic order) and a scalar sharing
    a stem with a vector (w3 / w2[...])"""
    x2v, x10v = ("vvar", "x2", 2), ("vvar", "x10", 2)
    w2v, w3 = ("vvar", "w2", 3), ("var", "w3")
    A2, A10 = ("mvar", "A2", 2, 2, False), ("mvar", "A10", 1, 2, False)
    return [
        ("sum(x10v)+sum(x2v)", add(("sum", x10v), ("sum", x2v))), ("x10v.x2v", ("dot", x10v, x2v)),
        ("sum(x2v)+x10+x9", add(add(("sum", x2v), x10), x9)), ("w3+sum(w2v)", add(w3, ("sum", w2v))),
        ("sum(w2v)+w3**2", add(("sum", w2v), ("bin", "**", w3, c(2)))), ("sum(A10)+sum(A2)", add(("msum", A10), ("msum", A2))),
        ("sum(x10v**2)+sum(x2v)", add(("sum", ("vpow", x10v, 2)), ("sum", x2v))),
    ]


def block_objectives():
    """whole-block reductions of sub-matrices (views of views) of a symmetric and a plain 4x4 matrix: principal,
    off-diagonal, stepped with equal and with different steps, reversed; and their transposes."""
    out = []
    Z = ("mvar", "Z", 4, 4, True)
    B = ("mvar", "B", 4, 4, False)
    subs = [(0, 2, 0, 2, None, None), (0, 2, 2, 4, None, None), (1, 3, 0, 2, None, None), (None, None, None, None, 2, 2),
            (None, None, None, None, 2, 3), (None, None, None, None, 3, 2), (None, None, None, None, -1, -1),
            (None, None, None, None, -1, None), (1, None, 1, None, 2, None), (0, 3, 1, 4, None, None)]
    for base, bl in ((Z, "Z"), (B, "B")):
        for sb in subs if bl == "Z" else subs[3:6]:
            blk = ("sub", base) + sb
            lab = f"{bl}[{sb}]"
            out.append(("sum " + lab, ("msum", blk)))
            out.append(("frob " + lab, ("frob", blk)))
            out.append(("sum T " + lab, ("msum", ("T", blk))))
            out.append(("sum row0 " + lab, ("sum", ("row", blk, 0, None, None, None))))
    return out


def constraints():
    v = X11
    rev = ("slice", v, None, None, -1)
    return [
        ("same-vec", ("cmp", "<=", ("sum", v), c(1))), ("same-vec-LC", ("cmp", ">=", ("mm", ("arr", tuple([1.0] * 11)), v), c(0))),
        ("other-view", ("cmp", "<=", ("sum", ("slice", v, 0, 3, None)), c(1))), ("rev-view", ("cmp", "==", ("sum", rev), c(1))),
        ("other-vec", ("cmp", ">=", ("sum", W3), c(0))), ("scalar", ("cmp", "<=", s_, c(3))), ("scalar2", ("cmp", ">=", add(t_, x10), c(0))),
        ("vector-con", ("cmp", ">=", v, c(0))), ("rev-vector-con", ("cmp", "<=", rev, c(5))),
        ("vec-vs-vec", ("cmp", "<=", ("slice", v, 0, 3, None), W3)), ("matrix-con", ("cmp", ">=", S, c(0))),
        ("const-only", ("cmp", "<=", ("C", 1.0), c(2))), ("param-con", ("cmp", "<=", ("sum", v), P_)),
        ("dot-con", ("cmp", "<=", ("dot", v, v), c(4))), ("row-con", ("cmp", "==", ("sum", ("row", M, 0, None, None, None)), c(1))),
        ("elem-con", ("cmp", "<=", ("idx", v, 10), ("idx", v, 9))),
        ("view-step4", ("cmp", "<=", ("sum", ("slice", v, None, None, 4)), c(1))),
        ("view-step5", ("cmp", ">=", ("sum", ("slice", v, None, None, 5)), c(0))),
        ("w-rev-open", ("cmp", "<=", ("sum", ("slice", W3, None, 0, -1)), c(2))),
        ("w-step2", ("cmp", ">=", ("mm", ("arr", (1.0, -1.0)), ("slice", W3, None, None, 2)), c(0))),
    ]


def all_cases(tier):
    objs, cons = objectives(), constraints()
    idx = 0
    for (ol, o) in objs:
        for k in (0, 1, 2) if tier == "quick" else (0, 1, 2, 3):
            combos = itertools.combinations(cons, k) if k < 3 else itertools.combinations(cons[:9], 3)
            for cs in combos:
                for sense in ("min",) if (idx % 3) else ("max",):
                    yield idx, (ol,) + tuple(cl for cl, _ in cs), PR.prob(sense, o, tuple(cr for _, cr in cs), (), (("p", 0.5),))
                    idx += 1


def elem_bounds(name):
    """A distinct declared (lb, ub, domain) per scalar variable name."""
    k = sum(p if isinstance(p, int) else len(p) for p in natural_key(name))
    dom = ("continuous", "integer", "continuous")[k % 3]
    return (-float(k % 7) - 1.0, float(k) + 0.5, dom)


def expected_names(pr):
    return PR.problem_var_names(pr)


def declare(b, names):
    for v in b.variables_for(names):
        lb, ub, dom = elem_bounds(v.name)
        v.lb, v.ub, v.domain = lb, ub, dom


def observe(pr, order, iterative):
    """Build the problem on the real code and read it through the public observation points."""
    from optyx.core import expressions as E

    P, b, built = PR.build_problem(pr)
    names = expected_names(pr)
    declare(b, names)
    ctx = threshold(0, E) if iterative else threshold(E._RECURSION_THRESHOLD, E)
    out = {}
    with ctx:
        if order == "variables-first":
            out["variables"] = [v.name for v in P.variables]
            out["n"] = P.n_variables
            out["bounds"] = P.get_bounds()
        else:
            out["bounds"] = P.get_bounds()
            out["n"] = P.n_variables
            out["variables"] = [v.name for v in P.variables]
        out["domains"] = [v.domain for v in P.variables]
        out["identity"] = all(v is w for v, w in zip(P.variables, b.variables_for([v.name for v in P.variables])))
    return P, b, out


def check_problem(pr, rep=None, want=None, solve=True):
    fails = Fails(want)
    names = expected_names(pr)
    if rep:
        rep.states += 1
        rep.transitions += size(pr[2]) + sum(size(cn) for cn in pr[3])
        if len(names) >= 2:
            rep.nt(pr)
    for order in ("variables-first", "bounds-first"):
        for iterative in (False, True):
            lab = order + ("/iterative" if iterative else "/recursive")
            try:
                P, b, out = observe(pr, order, iterative)
            except Exception as ex:
                fails.add("exception:" + type(ex).__name__, path=lab, msg=str(ex)[:200])
                continue
            if rep:
                rep.transitions += 3
                rep.evaluations += 4
            if len(set(out["variables"])) != len(out["variables"]):
                fails.add("duplicate-variables", path=lab, got=out["variables"])
            if sorted(out["variables"]) != sorted(names):
                fails.add("variable-set", path=lab, got=out["variables"], expected=names,
                          missing=sorted(set(names) - set(out["variables"])), extra=sorted(set(out["variables"]) - set(names)))
                continue
            if out["variables"] != names:
                fails.add("variable-order", path=lab, got=out["variables"], expected=names)
                continue
            if out["n"] != len(names):
                fails.add("n_variables", path=lab, got=out["n"], expected=len(names))
            exp_b = [elem_bounds(n)[:2] for n in names]
            if [tuple(x) for x in out["bounds"]] != exp_b:
                fails.add("get_bounds", path=lab, got=out["bounds"], expected=exp_b)
            if out["domains"] != [elem_bounds(n)[2] for n in names]:
                fails.add("domains", path=lab, got=out["domains"])
            if not out["identity"]:
                fails.add("variables-are-not-the-declared-objects", path=lab)
    if solve and names and not fails:
        try:
            P, b, built = PR.build_problem(pr)
            n = len(names)
            import warnings

            with warnings.catch_warnings():
                warnings.simplefilter("ignore")
                with Seam(script=[lambda call: result(np.arange(n, dtype=float), fun=0.0)] * 3, passthrough=False):
                    sol = P.solve()
            if rep:
                rep.transitions += 1
                rep.evaluations += 1
            if list(sol.values) != names and sol.values:
                fails.add("solution-keys", got=list(sol.values), expected=names)
            elif sol.values and [sol.values[nm] for nm in names] != [float(i) for i in range(n)]:
                fails.add("solution-values-misaligned", got=sol.values)
        except Exception as ex:
            fails.add("exception:solve:" + type(ex).__name__, msg=str(ex)[:200])
    return fails


def check_replacement(pr, prev, rep=None, want=None):
    """Non-initial problem object: P is built with the objective `prev` and the constraints of pr, its variable list,
    count and bounds are read and one (environment-answered) solve is made; the objective is then REPLACED by pr's
    through minimize / maximize and the same observations must equal those of pr built fresh."""
    import warnings

    fails = Fails(want)
    pr0 = ("prob", pr[1], prev) + tuple(pr[3:])
    try:
        P, b, built = PR.build_problem(pr0)
        names0 = expected_names(pr0)
        declare(b, names0)
        P.variables, P.n_variables, P.get_bounds()
        with warnings.catch_warnings():
            warnings.simplefilter("ignore")
            with Seam(script=[lambda call: result(np.zeros(len(names0)), fun=0.0)] * 3, passthrough=False):
                try:
                    P.solve()
                except Exception:
                    pass
        o = b.build(pr[2])
        (P.minimize if pr[1] == "min" else P.maximize)(o)
        names = expected_names(pr)
        declare(b, names)
        got = [v.name for v in P.variables]
        n = P.n_variables
        bounds = [tuple(x) for x in P.get_bounds()]
    except Exception as ex:
        fails.add("exception:after-objective-replacement:" + type(ex).__name__, msg=str(ex)[:200], previous=prev)
        return fails
    if rep:
        rep.transitions += 6
        rep.evaluations += 3
    if got != names:
        fails.add("variable-set:after-objective-replacement", got=got, expected=names, previous_objective=prev,
                  extra=sorted(set(got) - set(names)), missing=sorted(set(names) - set(got)))
    elif n != len(names):
        fails.add("n_variables:after-objective-replacement", got=n, expected=len(names))
    elif bounds != [elem_bounds(nm)[:2] for nm in names]:
        fails.add("get_bounds:after-objective-replacement", got=bounds)
    return fails


def check_shared_objective(pr, rep=None, want=None):
    """ONE objective object (and one set of constraint objects) used by several problems: first together with foreign
    companion constraints over further variables (variable list, count and bounds read), then alone - and the other way
    round.  Every problem must list exactly the variables IT mentions."""
    fails = Fails(want)
    from optyx import Problem
    from mc.build import Builder

    foreign = [("cmp", ">=", add(("var", "zq"), ("mm", ("arr", (1.0, 2.0)), ("vvar", "yy", 2))), c(1)),
               ("cmp", "<=", add(("var", "zq"), ("var", "A0")), c(3))]
    try:
        b = Builder(params=PR.params_dict(pr), var_attrs=PR.attrs_dict(pr))
        o = b.build(pr[2])
        own = [PR.build_constraint(b, cn) for cn in pr[3]]
        extra = [PR.build_constraint(b, cn) for cn in foreign]
    except Exception:
        return fails            # build errors are reported by check_problem
    names = expected_names(pr)
    names_x = expected_names(("prob", pr[1], pr[2], tuple(pr[3]) + tuple(foreign)) + tuple(pr[4:]))
    declare(b, names_x)
    for order in (("with-companions", "alone"), ("alone", "with-companions", "alone")):
        for step, which in enumerate(order):
            try:
                P = Problem()
                (P.minimize if pr[1] == "min" else P.maximize)(o)
                for k in own + (extra if which == "with-companions" else []):
                    P.subject_to(k)
                got = [v.name for v in P.variables]
                n = P.n_variables
                bounds = [tuple(x) for x in P.get_bounds()]
            except Exception as ex:
                fails.add("exception:shared-objective:" + type(ex).__name__, msg=str(ex)[:200], order=order, step=step)
                break
            if rep:
                rep.transitions += 4
                rep.evaluations += 3
            exp = names_x if which == "with-companions" else names
            if got != exp:
                fails.add("variable-set:shared-objective", got=got, expected=exp, order=order, step=step,
                          extra=sorted(set(got) - set(exp)), missing=sorted(set(exp) - set(got)))
                break
            if n != len(exp) or bounds != [elem_bounds(nm)[:2] for nm in exp]:
                fails.add("get_bounds:shared-objective", got=bounds, n=n, order=order, step=step)
                break
    return fails


def check_declared_at_construction(rep):
    """bounds and domains given to the CONSTRUCTORS (scalar, vector, matrix, symmetric matrix; every domain; integral,
    fractional, one-sided, infinite and absent bounds) are what the problem reports - binary containers report [0, 1]"""
    import optyx

    fails = Fails()
    inf = float("inf")
    boxes = [(0.0, 10.0), (0.5, 3.5), (-1.5, 2.25), (None, 2.5), (0.25, None), (None, None), (-inf, inf), (-2, 7), (1e-9, 1 - 1e-9)]
    for domain in ("continuous", "integer", "binary"):
        for lb, ub in boxes:
            kw = {k: v for k, v in (("lb", lb), ("ub", ub)) if v is not None}
            routes = {
                "scalar": lambda: [optyx.Variable("n", domain=domain, **kw)],
                "vector": lambda: list(optyx.VectorVariable("k", 3, domain=domain, **kw)),
                "matrix": lambda: [e for row in optyx.MatrixVariable("A", 2, 2, domain=domain, **kw)._variables for e in row],
                "symmetric": lambda: [optyx.MatrixVariable("S", 2, 2, symmetric=True, domain=domain, **kw)[i, j] for i, j in ((0, 0), (0, 1), (1, 1))],
            }
            for rname, mk in routes.items():
                try:
                    vs = mk()
                    o = vs[0]
                    for v in vs[1:]:
                        o = o + v
                    extra = optyx.Variable("zz", lb=-1.0, ub=1.0)
                    P = optyx.Problem().minimize(o + extra)
                    got = {v.name: (tuple(b), v.domain) for v, b in zip(P.variables, P.get_bounds())}
                except Exception as ex:
                    rep.outcomes["constructor-rejected:" + type(ex).__name__] += 1
                    continue
                rep.states += 1
                rep.transitions += 3
                rep.evaluations += len(vs)
                rep.nt(("declared", domain, lb, ub, rname))
                exp_b = (0.0, 1.0) if domain == "binary" else (lb, ub)
                for v in vs:
                    g = got.get(v.name)
                    if g is None:
                        fails.add("declared-variable-missing", route=rname, domain=domain, name=v.name)
                    elif g[1] != domain or g[0][0] != exp_b[0] or g[0][1] != exp_b[1]:
                        fails.add("declared-bounds-not-reported", route=rname, domain=domain, name=v.name, declared=(lb, ub), got=g)
                        break
    return fails


NSH = 32


def shards(tier, seed):
    return [("P", i, NSH) for i in range(NSH)] + [("H", 1, 1), ("H", 2, 1), ("D", 0, 1)]


def child_main():
    """Run in a child process with another PYTHONHASHSEED: print the variable lists of every case."""
    tier = sys.argv[2]
    sys.path.insert(0, os.environ.get("OPTYX_SRC", "/repo/src"))
    out = []
    for idx, lab, pr in all_cases(tier):
        try:
            P, b, built = PR.build_problem(pr)
            out.append([v.name for v in P.variables])
        except Exception as ex:
            out.append(["!exception", type(ex).__name__])
    json.dump(out, sys.stdout)


def explore(item, tier, seed):
    kind, i, n = item
    rep = Report()
    if kind == "P":
        for idx, lab, pr in all_cases(tier):
            if idx % n != i:
                continue
            fs = check_problem(pr, rep)
            seen = set()
            for k, d in fs:
                if k not in seen:
                    seen.add(k)
                    rep.violation(k, {"label": lab, "problem": pr}, **d)
            if not fs and len(lab) <= 2:
                objs = objectives()
                j = next(t for t, (ol, _) in enumerate(objs) if ol == lab[0])
                for rot in (7, 19):
                    prev = objs[(j + rot) % len(objs)][1]
                    for k, d in check_replacement(pr, prev, rep):
                        if k not in seen:
                            seen.add(k)
                            rep.violation(k, {"label": lab, "problem": pr, "previous": prev}, **d)
            if not fs and len(lab) <= 2:
                for k, d in check_shared_objective(pr, rep):
                    if k not in seen:
                        seen.add(k)
                        rep.violation(k, {"label": lab, "problem": pr, "shared": True}, **d)
            if rep.states % 301 == 1:
                rep.sample({"label": lab, "problem": pr})
        return rep
    if kind == "D":
        for k, d in check_declared_at_construction(rep):
            rep.violation(k, {"label": ("declared-at-construction", d.get("route"), d.get("domain")), "problem": None, "declared": True}, **d)
        return rep
    # hash-seed children
    env = dict(os.environ, PYTHONHASHSEED=str(i))
    r = subprocess.run([sys.executable, "-c", "from checks import c16; c16.child_main()", "x", tier],
                       env=env, capture_output=True, text=True, cwd=os.path.dirname(os.path.dirname(os.path.abspath(__file__))))
    if r.returncode != 0:
        raise RuntimeError("hash-seed child failed: " + r.stderr[-500:])
    lists = json.loads(r.stdout)
    for (idx, lab, pr), got in zip(all_cases(tier), lists):
        rep.states += 1
        rep.transitions += 1
        rep.evaluations += 1
        exp = expected_names(pr)
        if got != exp:
            rep.violation("variables-under-hash-seed", {"label": lab, "problem": pr, "hashseed": i}, got=got, expected=exp)
    rep.outcomes["hashseed:%d" % i] += 1
    return rep


def culprit(v):
    lab = v["case"]["label"]
    if v["case"].get("declared"):
        return {"kind": v["kind"], "route": lab[1], "domain": lab[2]}
    return {"kind": v["kind"], "objective": lab[0], "constraints": sorted(lab[1:])[:1] if v["kind"] != "variable-order" else []}


def replay(art):
    if art["violation"]["case"].get("declared"):
        return [{"kind": k, "detail": d} for k, d in check_declared_at_construction(Report()) if k == art["culprit"]["kind"]]
    pr = detuple(art["violation"]["case"]["problem"])
    if art["violation"]["case"].get("shared"):
        return [{"kind": k, "detail": d} for k, d in check_shared_objective(pr, None, want=art["culprit"]["kind"])]
    if art["violation"]["case"].get("previous") is not None:
        fs = check_replacement(pr, detuple(art["violation"]["case"]["previous"]), None, want=art["culprit"]["kind"])
        return [{"kind": k, "detail": d} for k, d in fs]
    fs = check_problem(pr, None, want=art["culprit"]["kind"] if art["culprit"]["kind"] != "variables-under-hash-seed" else None)
    return [{"kind": k, "detail": d} for k, d in fs]
