"""Layered alphabets: complete enumerations of scalar recipes (DESIGN.md section 2.2).

Every generator is deterministic and yields recipes simplest-first; work is split by
`index % nshards == shard` so that the union over shards is the complete layer.
"""

from __future__ import annotations

import itertools

from mc.alg import UNARY

BINOPS = ("+", "-", "*", "/", "**")
X = ("var", "x")
Y = ("var", "y")
Z = ("var", "z")          # never occurs in layer recipes: the "foreign" variable
P = ("par", "p")

LEAVES = {
    4: (X, Y, ("c", 2), P),
    6: (X, Y, ("c", 2), P, ("c", 0.5), ("c", -1)),
    8: (X, Y, ("c", 2), P, ("c", 0.5), ("c", -1), ("c", 0), ("c", 3.0)),
}
# the simplifier alphabet (sub-derivatives that are exactly 0 or 1)
LEAVES_B = (X, Y, ("c", 0), ("c", 1), ("c", 2), ("c", -1), ("c", 0.5), P)
OPS_B = ("+", "-", "*", "/", "**")


def depth1(leaves):
    out = list(leaves)
    for f in UNARY:
        for a in leaves:
            out.append(("un", f, a))
    for op in BINOPS:
        for a in leaves:
            for b in leaves:
                out.append(("bin", op, a, b))
    return out


def layer_A(leaves, maxdepth=2):
    """Every tree of depth <= maxdepth (<= 2) over 5 binary and 19 unary operators."""
    d1 = depth1(leaves)
    if maxdepth <= 1:
        yield from d1
        return
    yield from d1
    nl = len(leaves)
    for f in UNARY:
        for a in d1[nl:]:                 # depth exactly 2 under a unary op
            yield ("un", f, a)
    for op in BINOPS:
        for i, a in enumerate(d1):
            for j, b in enumerate(d1):
                if i < nl and j < nl:
                    continue              # already in d1
                yield ("bin", op, a, b)


def layer_B(max_nodes, leaves=LEAVES_B):
    """Every tree with <= max_nodes nodes over + - * / ** neg (simplifier alphabet)."""
    by = {1: list(leaves)}
    for n in range(2, max_nodes + 1):
        cur = [("un", "neg", a) for a in by[n - 1]]
        for k in range(1, n - 1):
            for op in OPS_B:
                for a in by[k]:
                    for b in by[n - 1 - k]:
                        cur.append(("bin", op, a, b))
        by[n] = cur
    for n in range(1, max_nodes + 1):
        yield from by[n]


def layer_C(maxlen=3, leaf=X):
    """Every unary chain f(g(h(x))) of length <= maxlen over the 19 unary operators."""
    for n in range(1, maxlen + 1):
        for fs in itertools.product(UNARY, repeat=n):
            r = leaf
            for f in reversed(fs):
                r = ("un", f, r)
            yield r


# ---- scalar-valued vector / matrix node kinds (layer D leaves) ----------------------

V3 = ("vvar", "v", 3)
W3 = ("vvar", "w", 3)
M22 = ("mvar", "M", 2, 2, False)
S22 = ("mvar", "S", 2, 2, True)
C3 = ("arr", (2.0, -1.0, 0.5))
C2 = ("arr", (1.5, -2.0))
Q3 = ("arr2", ((2.0, 0.5, 0.0), (0.5, 1.0, -1.0), (0.0, -1.0, 3.0)))
Q3N = ("arr2", ((1.0, 2.0, 0.0), (-1.0, 0.5, 1.0), (3.0, 0.0, 2.0)))      # non-symmetric
VUN = ("sin", "cos", "tan", "exp", "log", "abs", "sqrt", "sinh", "cosh", "tanh")


def layer_D_leaves():
    v, w = V3, W3
    vp1 = ("vbin", "+", v, ("c", 1))
    out = [
        ("sum", v), ("mm", C3, v), ("mm", v, C3), ("LC", C3, vp1), ("mm", C3, vp1),
        ("dot", v, v), ("dot", v, w), ("mm", v, w),
        ("dot", ("slice", v, 0, 2, None), ("slice", v, 1, 3, None)),
        ("dot", ("slice", v, None, None, -1), ("slice", v, 0, 3, None)),
        ("dot", v, ("slice", v, 0, 3, None)),
        ("dot", ("vbin", "+", v, w), ("vbin", "-", v, w)),
        ("dot", v, ("vbin", "*", w, ("c", 2))),
        ("norm", v, 1), ("norm", v, 2), ("norm", ("vbin", "-", v, w), 2),
        ("norm", ("vbin", "*", v, ("c", 2)), 1),
        ("qform", v, Q3), ("qform", v, Q3N), ("qform", ("vbin", "+", v, w), Q3),
        ("dot", v, ("mv", Q3N, v)), ("dot", v, ("mv", Q3N, w)),
        ("sum", ("vbin", "-", v, w)), ("sum", ("vbin", "*", v, w)), ("vsum", ("vbin", "*", v, w)),
        ("sum", ("vun", "sin", vp1)),
        ("msum", M22), ("msum", ("mbin", "*", M22, M22)), ("msum", ("mbin", "*", M22, ("c", 2))),
        ("msum", S22), ("frob", M22), ("trace", M22), ("trace", S22),
        ("sum", ("row", M22, 0, None, None, None)),
        ("dot", ("col", ("T", M22), None, None, None, 1), ("slice", v, 0, 2, None)),
        ("idx", v, 1), ("midx", S22, 1, 0), ("idx", ("mv", Q3N, v), 2),
    ]
    for k in (1, 2, 3, 0.5, -1):
        out.append(("sum", ("vpow", v, k)))
    for f in VUN:
        out.append(("sum", ("vun", f, v)))
    # (appended later; indices of the leaves above are part of C15's term-kind names)
    # the SAME operand object on both sides (the builder memoises vector recipes) / an equal but distinct object
    vv = ("vbin", "*", v, v)
    out += [("dot", vp1, vp1), ("dot", vv, vv), ("dot", vp1, ("fresh", 1, vp1))]
    # stepped / reversed views under every reduction kind (positions are not first + offset)
    u = ("vvar", "u", 5)
    e2, o2, r5 = ("slice", u, None, None, 2), ("slice", u, 1, None, 3), ("slice", u, None, None, -1)
    C5 = ("arr", (1.0, -2.0, 0.5, 3.0, -1.5))
    out += [("sum", e2), ("mm", C3, e2), ("LC", C3, e2), ("norm", e2, 2), ("norm", e2, 1), ("qform", e2, Q3N), ("dot", e2, e2),
            ("sum", r5), ("mm", C5, r5), ("norm", r5, 2), ("norm", o2, 1), ("mm", C2, o2), ("dot", r5, u),
            ("sum", ("vpow", e2, 3)), ("sum", ("vun", "exp", r5))]
    # two DIFFERENT views with the same generated name and size inside one expression
    s3, s4 = ("slice", u, None, None, 3), ("slice", u, None, None, 4)
    out += [("bin", "-", ("sum", s3), ("sum", s4)), ("bin", "+", ("mm", C2, s3), ("mm", ("arr", (0.5, 3.0)), s4)),
            ("dot", ("slice", v, None, None, None), ("slice", v, None, None, -1)),
            ("bin", "-", ("sum", ("row", M22, 0, 0, 1, None)), ("bin", "*", ("c", 3), ("sum", ("row", M22, 0, 1, 2, None)))),
            ("bin", "+", ("norm", s3, 2), ("bin", "*", ("c", 2), ("norm", s4, 2))),
            ("bin", "*", ("sum", ("vpow", s3, 2)), ("sum", ("vpow", s4, 3)))]
    # a plain vector on one side, an expression vector that MIXES slots of the same vector on the other
    out += [("mm", v, ("mv", Q3N, v)), ("dot", ("mv", Q3N, v), v), ("mm", ("mv", Q3N, v), v),
            ("dot", ("vbin", "-", ("slice", u, 0, 3, None), ("slice", u, 1, 4, None)), ("slice", u, 0, 3, None)),
            ("dot", ("slice", u, 1, 4, None), ("vbin", "*", ("slice", u, 0, 3, None), ("slice", u, 2, 5, None)))]
    # constant data in other NumPy dtypes / Python ints
    out += [("mm", ("arr", (2, -1, 3), "int"), v), ("mm", v, ("arr", (1, 0, 1), "bool")), ("LC", ("arr", (2, 3, 4), "uint8"), vp1),
            ("dot", v, ("lst", (1, -2, 3))), ("mm", ("arr", (0.5, -1.5, 2.0), "float32"), v),
            ("qform", v, ("arr2", ((2, 1, 0), (1, 3, -1), (0, -1, 4)), "int")), ("sum", ("vbin", "*", v, ("arr", (2, -1, 3), "int")))]
    # reductions over MANY elements that all depend on every variable (7, 11, 13 rows: term counts that are odd at two
    # or more levels of a pairwise summation)
    def dense(rows, cols):
        return ("arr2", tuple(tuple(float(((3 * i + 5 * j) % 7) - 3 + 0.5 * ((i + j) % 2)) for j in range(cols)) for i in range(rows)))

    for rows in (7, 11, 13):
        Av = ("mv", dense(rows, 3), v)
        bvec = ("arr", tuple(0.25 * (i % 5) - 0.5 for i in range(rows)))
        out += [("sum", Av), ("norm", ("vbin", "-", Av, bvec), 2), ("dot", ("vbin", "-", Av, bvec), ("vbin", "-", Av, bvec)),
                ("mm", ("arr", tuple(1.0 + 0.5 * (i % 3) for i in range(rows))), Av)]
    out += [("norm", ("mv", dense(7, 3), v), 1), ("sum", ("vun", "sin", ("mv", dense(7, 3), v))), ("sum", ("vpow", ("mv", dense(11, 3), v), 2))]
    # a boolean matrix; an expression vector of Constants as the other side of a dot product; exponent-1 power sums
    out += [("qform", v, ("arr2", ((1, 1, 0), (0, 1, 1), (1, 0, 1)), "bool")), ("dot", v, ("cvec", (2.0, 3.0, 5.0))),
            ("dot", ("cvec", (2.0, -1.0, 0.5)), vp1), ("sum", ("vpow", vp1, 1))]
    # quadratic forms whose matrix is NOT symmetric although Q and Q.T agree within numpy.allclose's default tolerances:
    # tiny entries (data in very small units) and a small relative asymmetry between large entries
    QT = ("arr2", ((2e-9, 5e-9, 0.0), (-1e-9, 1e-9, 3e-9), (4e-9, 0.0, 3e-9)))
    QN = ("arr2", ((1.0, 1000.0, 0.5), (1000.005, 1.0, 0.25), (0.5, 0.2500001, 2.0)))
    out += [("qform", v, QT), ("qform", v, QN), ("qform", vp1, QT), ("qform", ("slice", u, 1, 4, None), QN),
            ("dot", v, ("mv", QT, v)), ("bin", "*", ("c", 1e9), ("qform", v, QT))]
    # strictly LOWER-triangular matrices (non-zero entries whose mirrored entries are zero) over expression vectors of
    # different element degrees
    QL = ("arr2", ((0.0, 0.0, 0.0), (1.0, 0.0, 0.0), (2.0, -3.0, 0.0)))
    out += [("qform", vp1, QL), ("qform", ("vbin", "*", v, v), QL), ("qform", ("vbin", "*", v, ("slice", u, 1, 4, None)), QL),
            ("qform", v, QL), ("qform", ("vbin", "+", v, ("c", 0.0)), ("arr2", ((0.0, 0.0, 0.0), (0.0, 0.0, 0.0), (1.0, 0.0, 0.0))))]
    out += tiny_coefficient_rows()
    # reductions over a vector whose elements are Parameters ONLY, under operators whose other operands are variable-free
    pv = ("pvec", ("p", "q"))
    out += [("bin", "-", X, ("bin", "*", ("c", 0.5), ("sum", pv))), ("bin", "*", X, ("un", "neg", ("mm", ("arr", (1.0, 2.0)), pv))),
            ("bin", "/", X, ("bin", "+", ("dot", pv, pv), ("c", 1))), ("bin", "+", ("sum", pv), X),
            ("bin", "*", ("sum", v), ("un", "exp", ("un", "neg", ("norm", pv, 2))))]
    return out


def contexts_depth1(hole="HOLE"):
    """Every depth<=1 context of layer A around a hole (the hole alone, unary, binary with a leaf)."""
    H = (hole,)
    out = [H]
    for f in UNARY:
        out.append(("un", f, H))
    for op in BINOPS:
        for leaf in (X, ("c", 2), P):
            out.append(("bin", op, H, leaf))
            out.append(("bin", op, leaf, H))
    return out


def plug(ctx, r, hole="HOLE"):
    if ctx == (hole,):
        return r
    return tuple(plug(c, r, hole) if isinstance(c, tuple) and c and isinstance(c[0], str) and c[0] in ("un", "bin", hole) else c
                 for c in ctx)


def layer_D():
    for leaf in layer_D_leaves():
        for ctx in contexts_depth1():
            yield plug(ctx, leaf)


def shard(gen, i, n):
    for k, r in enumerate(gen):
        if k % n == i:
            yield r


def size(r):
    return 1 + sum(size(c) for c in r[1:] if isinstance(c, tuple) and c and isinstance(c[0], str) and len(c) > 1 and c[0] not in ("arr", "arr2", "lst", "lst2"))


def tiny_coefficient_rows():
    """literal coefficients far from O(1) (physical constants, data in tiny / huge units) multiplying non-constant factors.
    Each row is rescaled to O(1) by an OUTER constant factor, so that the comparison (whose tolerance has an absolute
    floor of 1e-9) sees a term that a derivative rule dropped or altered."""
    sq = ("bin", "**", X, ("c", 2))
    rows = [(1e15, ("bin", "*", ("c", 1e-15), sq)), (1e34, ("bin", "*", ("bin", "*", ("c", -6.6e-34), X), Y)),
            (1e13, ("bin", "*", ("un", "sin", X), ("c", 3e-13))), (1e14, ("bin", "/", ("bin", "*", ("c", 2e-14), ("bin", "**", X, ("c", 3))), Y)),
            (1e-15, ("bin", "*", ("c", 4e15), ("bin", "*", X, Y))),
            (1e15, ("bin", "+", ("bin", "*", ("c", 1e-15), sq), ("bin", "*", ("c", 2e-15), Y)))]
    out = []
    for k, r in rows:
        out.append(("bin", "*", ("c", k), r))
        out.append(("bin", "/", r, ("c", 1.0 / k)))
    return out


def nested_powers():
    """(u ** m) ** n and friends for exponent pairs whose product is NOT how the tower behaves on negative u
    ((u**2)**1.5 = |u|**3), over several inner expressions u; plus towers under outer operations."""
    x, y = ("var", "x"), ("var", "y")
    c = lambda v: ("c", v)  # noqa: E731
    pw = lambda a, e: ("bin", "**", a, c(e))  # noqa: E731
    inner = [x, ("bin", "+", x, y), ("bin", "*", x, y), ("un", "sin", x), ("bin", "-", x, c(1)), ("un", "neg", y)]
    out = []
    for u in inner:
        for m in (2, 4, -2, 2.0):
            for n in (0.5, 1.5, 2.5, -0.5, -1.5, 3):
                out.append(pw(pw(u, m), n))
        out.append(pw(pw(pw(u, 2), 1.5), 2))
        out.append(pw(pw(pw(u, 2), 0.5), 3))
    t = pw(pw(x, 2), 1.5)
    out += [("bin", "+", t, ("bin", "*", x, y)), ("bin", "*", t, y), ("un", "exp", ("un", "neg", t)), ("bin", "/", y, ("bin", "+", t, c(1))),
            ("bin", "+", ("bin", "+", t, ("bin", "*", x, y)), pw(y, 2))]
    return out
