"""Calling disciplines for compiled callables (how a solver really calls them)."""

from __future__ import annotations

import numpy as np


class RepeatCallDiffers(Exception):
    """a compiled callable answered differently when asked twice in a row at the same point"""


class InputMutated(Exception):
    """a compiled callable modified the array it was given"""


class EarlierResultOverwritten(Exception):
    """a later call changed the array an earlier call had returned"""


class InPlace:
    """The calling discipline of a solver, applied to a compiled callable: ONE float64 buffer per callable that is
    overwritten IN PLACE for every new point (SciPy hands its own iterate array, updated in place), and every point
    requested twice in a row (line searches and accept steps re-request the last point).  Returns the second answer;
    raises when the two answers differ or the callee wrote into the buffer."""

    __slots__ = ("fn", "buf", "prev", "prev_copy", "prev_x")

    def __init__(self, fn):
        self.fn = fn
        self.buf = None
        self.prev = self.prev_copy = self.prev_x = None

    def __call__(self, x):
        x = np.asarray(x, dtype=np.float64)
        if self.buf is None or self.buf.shape != x.shape:
            self.buf = x.copy()
        else:
            self.buf[...] = x
        r1 = self.fn(self.buf)
        c1 = np.array(r1, dtype=float, copy=True)
        r2 = self.fn(self.buf)
        c2 = np.asarray(r2, dtype=float)
        if not np.array_equal(self.buf, x):
            raise InputMutated(f"input {x.tolist()} became {self.buf.tolist()}")
        if c1.shape != c2.shape or not np.array_equal(c1, c2, equal_nan=True):
            raise RepeatCallDiffers(f"at {x.tolist()}: first {c1.tolist()} second {c2.tolist()}")
        # a solver KEEPS earlier results (the previous gradient / Hessian of a quasi-Newton or trust-region step): the
        # array returned for the previous point must still hold that point's values after this call
        if isinstance(self.prev, np.ndarray) and not np.array_equal(self.prev, self.prev_copy, equal_nan=True):
            raise EarlierResultOverwritten(f"result returned at {self.prev_x} was {self.prev_copy.tolist()}, after the call at "
                                           f"{x.tolist()} the same array holds {self.prev.tolist()}")
        if isinstance(r2, np.ndarray):
            self.prev, self.prev_copy, self.prev_x = r2, np.array(r2, copy=True), x.tolist()
        else:
            self.prev = None
        return r2


def clear_lru(*modules):
    """Clear every functools.lru_cache-style memo defined at module level in the given modules.  The harness
    names no private function of optyx: a refactoring that renames or replaces one must not crash a check."""
    for mod in modules:
        for obj in list(vars(mod).values()):
            cc = getattr(obj, "cache_clear", None)
            if callable(cc):
                try:
                    cc()
                except Exception:
                    pass


def typed_point_mismatch(fn, n):
    """Call a compiled callable at integer-valued points spelled as int64 arrays and compare with the
    float64 spelling of the same point (the dtype of the point must not leak into the result).  Returns a description
    of the first mismatch or None."""
    for base in ([1 + (i % 3) for i in range(n)], [2 - (i % 2) for i in range(n)]):
        with np.errstate(all="ignore"):
            try:
                ref = np.array(fn(np.array(base, dtype=np.float64)), dtype=float, copy=True)
            except Exception:
                continue
            if not np.all(np.isfinite(ref)) or np.any(np.abs(ref) > 1e12):
                continue        # singular / sanitised point: rounding of the point itself decides the result
            for dt, tol in ((np.int64, 1e-12),):       # (float32 points legitimately compute in lower precision)
                try:
                    got = np.asarray(fn(np.array(base, dtype=dt)), dtype=float)
                except Exception:
                    continue    # integer arithmetic that NumPy itself rejects (int ** negative int): not judged
                if got.shape != ref.shape or not np.allclose(got, ref, rtol=tol, atol=tol * (1 + (float(np.max(np.abs(ref))) if ref.size else 0.0)), equal_nan=True):
                    return {"point": base, "dtype": np.dtype(dt).name, "got": got.tolist(), "float64": ref.tolist()}
    return None


class LiveMapping:
    """The calling discipline of a scenario loop, applied to tree evaluation: ONE values dict per expression that is
    updated in place for every new assignment, and every assignment evaluated twice.  Raises RepeatCallDiffers when the
    two evaluations differ."""

    __slots__ = ("fn", "d")

    def __init__(self, fn):
        self.fn = fn
        self.d = {}

    def __call__(self, values):
        self.d.clear()
        self.d.update(values)
        r1 = self.fn(self.d)
        c1 = np.array(r1, dtype=float, copy=True)
        r2 = self.fn(self.d)
        c2 = np.asarray(r2, dtype=float)
        if c1.shape != c2.shape or not np.array_equal(c1, c2, equal_nan=True):
            raise RepeatCallDiffers(f"evaluate twice at {dict(values)}: first {c1.tolist()} second {c2.tolist()}")
        return r2
