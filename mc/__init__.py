"""Bounded exhaustive exploration (model checking) machinery for daggbt/optyx.

Nothing in this package imports optyx except `build.py`, `seams.py` and the
check modules; the reference interpreters (`alg.py`, `interp.py`) share no
code with optyx.
"""
