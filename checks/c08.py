"""C08  linear problems are solved to the true LP optimum with the true status (any spelling, method, repeat)."""

from __future__ import annotations

from checks.common import Fails, Report, detuple, np
from checks import lpfamily as F
from mc import problems as PR
from mc.minimise import size

ID = "C08"
LEVEL = "model_checking"
RULE = (
    "states = linear problem recipes of the family {2 scalars, one size-3 vector} x objective coefficient menus "
    "(zero objective included) x constant {0,5} x {min,max} x constraint sets (none, every single row of the "
    "8-row menu x rhs {-1,0,2} x {<=,>=,==}, pairs) x bounds menus (box, half-bounded, free, empty box): the full "
    "product; the spelling of each affine form (C05 menu) and the method (auto, linprog, highs, highs-ds, "
    "highs-ipm) are assigned by fixed rotations in the quick tier and by the full product with the methods in "
    "the thorough tier.  transitions = solves on the real code (3 per state: first solve and two repeats on the "
    "same Problem object) plus builder operations; every third case is repeated on WARM objects (P + zz built and solved "
    "first, then P + A0 - same column count, all columns shifted - from the same variable and vector objects); view-only "
    "LPs over colliding views are part of the family; an evaluation = one comparison of verdict / optimal value "
    "with the independently assembled matrix form (exact polynomial coefficients) solved by the same linprog "
    "method.  Non-trivial = reference verdict decided (optimal / infeasible / unbounded); distinct by recipe."
)
ASSUMPTIONS = [
    "scipy.optimize.linprog (HiGHS) is the trusted LP solver on both sides; reference status 4 or 1 counts as indeterminate",
    "objective tolerance 1e-7*(1+|obj_ref|) as stated in the property",
]
NSH = 64


def shards(tier, seed):
    return [(i, NSH) for i in range(NSH)]


def verdict_of(sol):
    return {"optimal": "optimal", "infeasible": "infeasible", "unbounded": "unbounded"}.get(sol.status.value, sol.status.value)


def check_warm_objects(pr, method, rep=None, want=None):
    """Non-initial variable / vector objects: P + zz (zz sorts last) is built and solved first, then P + A0 (A0 sorts
    first: same number of columns, every column of P shifted) is built from the SAME objects and must reach the optimum
    and verdict of its own reference LP."""
    from checks.c05 import shifted

    D, T = shifted(pr, "zz"), shifted(pr, "A0")
    attrs = tuple(pr[4]) + (("zz", (("lb", 0), ("ub", 1))), ("A0", (("lb", 0), ("ub", 1))))
    D, T = D[:4] + (attrs,) + D[5:], T[:4] + (attrs,) + T[5:]
    try:
        PD, b, _ = PR.build_problem(D)
        PD.solve(**({} if method == "auto" else {"method": method}))
    except Exception:
        return Fails(want)
    fs = check_problem(T, method, rep, want, builder=b)
    out = Fails()
    for k, d in fs:
        out.append((k if want is not None else k + ":warm-objects", d))
    return out


def check_problem(pr, method, rep=None, want=None, builder=None):
    fails = Fails(want)
    try:
        P, b, built = PR.build_problem(pr, builder)
    except Exception as ex:
        fails.add("exception:build:" + type(ex).__name__, msg=str(ex)[:200])
        return fails
    from checks.c05 import has_optional_lp_form

    if has_optional_lp_form(pr):
        try:
            treated = P._is_linear_problem()
        except Exception:
            treated = True
        if not treated:
            if rep:
                rep.skipped["linear-model-optyx-does-not-treat-as-LP (division by a non-literal constant expression)"] += 1
            return fails
    ref = F.reference_lp(pr)
    try:
        rv = F.solve_reference(ref, method)
    except Exception as ex:
        if rep:
            rep.skipped["reference-raised:" + type(ex).__name__] += 1
        rv = None
    if rep:
        rep.states += 1
        rep.transitions += size(pr[2]) + sum(size(c) for c in pr[3])
    kw = {} if method == "auto" else {"method": method}
    sols = []
    for k in range(3):
        try:
            sols.append(P.solve(**kw))
        except Exception as ex:
            fails.add("exception:solve:" + type(ex).__name__, repeat=k, method=method, msg=str(ex)[:200])
            return fails
        if rep:
            rep.transitions += 1
    if rv is None:
        if rep:
            rep.skipped["no-reference"] += 1
        return fails
    verdict, obj, res = rv
    if rep:
        rep.outcomes["ref:" + verdict] += 1
    if verdict == "indeterminate":
        if rep:
            rep.skipped["reference-indeterminate"] += 1
        return fails
    if rep:
        rep.nt(pr)
    for k, sol in enumerate(sols):
        if rep:
            rep.evaluations += 1
        got = verdict_of(sol)
        if got != verdict:
            fails.add("verdict" + (":repeat" if k else ""), repeat=k, method=method, got=got, expected=verdict,
                      message=sol.message[:120])
            continue
        if verdict == "optimal":
            if sol.objective_value is None or abs(sol.objective_value - obj) > 1e-7 * (1 + abs(obj)):
                fails.add("optimal-value" + (":repeat" if k else ""), repeat=k, method=method, got=sol.objective_value,
                          expected=obj, values=sol.values)
    return fails


def check_deep_lp(nterms, shared, op, sense, method, rep=None, want=None):
    """an LP whose objective and capacity row are left-deep accumulations of nterms linear terms (fresh or shared
    composite term objects): verdict and optimum against the matrix form assembled from the exact coefficients"""
    import optyx
    from scipy.optimize import linprog
    from checks.c05 import deep_model

    fails = Fails(want)
    acc, names, coef, const, y = deep_model(nterms, shared, op)
    cvec = np.array([coef[nm] for nm in names])
    tag = {"n": nterms, "shared_term_objects": shared, "op": op, "sense": sense, "method": method}
    try:
        P = optyx.Problem()
        (P.minimize if sense == "min" else P.maximize)(acc)
        P.subject_to(acc + 2 * y <= 40).subject_to(acc >= -30)
        sols = [P.solve(**({} if method == "auto" else {"method": method})) for _ in range(2)]
    except Exception as ex:
        fails.add("exception:deep-lp:" + type(ex).__name__, msg=str(ex)[:200], **tag)
        return fails
    sign = 1.0 if sense == "min" else -1.0
    row2 = cvec + np.array([0.0, 0.0, 0.0, 2.0])
    res = linprog(c=sign * cvec, A_ub=np.array([row2, -cvec]), b_ub=np.array([40 - const, 30 + const]),
                  bounds=[(0.0, 4.0)] * 3 + [(-1.0, 2.0)], method="highs" if method in ("auto", "linprog") else method)
    if rep:
        rep.states += 1
        rep.transitions += nterms + 2
        rep.evaluations += 2
        rep.nt(("deep-lp", nterms, shared, op, sense, method))
    if res.status != 0:
        return fails
    ref = sign * float(res.fun) + const
    for k, sol in enumerate(sols):
        if sol.status.value != "optimal":
            fails.add("verdict:deep" + (":repeat" if k else ""), got=sol.status.value, expected="optimal", **tag)
        elif sol.objective_value is None or abs(sol.objective_value - ref) > 1e-7 * (1 + abs(ref)):
            fails.add("optimal-value:deep" + (":repeat" if k else ""), got=sol.objective_value, expected=ref, **tag)
    return fails


DEEP_LP = [(nt, sh, op, se, m) for nt in (401, 700) for sh in (False, True) for op in ("+", "-") for se in ("min", "max")
           for m in ("auto", "highs-ds")]


def explore(item, tier, seed):
    i, n = item
    rep = Report()
    for j, cfg in enumerate(DEEP_LP):
        if j % n == i:
            for kind, d in check_deep_lp(*cfg, rep=rep):
                rep.violation(kind, {"labels": ("deep-lp",) + cfg[:3], "problem": ("prob", cfg[3]), "method": cfg[4], "deep": list(cfg)}, **d)
    import itertools as _it

    for idx, labs, pr, method in _it.chain(F.family(tier), F.view_family(), F.scaled_family()):
        if idx % n != i:
            continue
        fs = check_problem(pr, method, rep)
        seen = set()
        for kind, d in fs:
            if kind not in seen:
                seen.add(kind)
                rep.violation(kind, {"labels": labs, "problem": pr, "method": method}, **d)
        if not fs and idx % 3 == 0:
            for kind, d in check_warm_objects(pr, method, rep):
                if kind not in seen:
                    seen.add(kind)
                    rep.violation(kind, {"labels": labs, "problem": pr, "method": method, "warm": True}, **d)
        if rep.states % 401 == 1:
            rep.sample({"labels": labs, "method": method, "problem": pr})
    return rep


def culprit(v):
    return {"kind": v["kind"], "labels": v["case"]["labels"][:1], "sense": v["case"]["problem"][1]}


def replay(art):
    case = art["violation"]["case"]
    if case.get("deep"):
        return [{"kind": k, "detail": d} for k, d in check_deep_lp(*case["deep"], want=art["culprit"]["kind"])]
    if case.get("warm"):
        fs = check_warm_objects(detuple(case["problem"]), case["method"], None, want=art["culprit"]["kind"].replace(":warm-objects", ""))
        return [{"kind": k + ":warm-objects", "detail": d} for k, d in fs]
    fs = check_problem(detuple(case["problem"]), case["method"], None, want=art["culprit"]["kind"])
    return [{"kind": k, "detail": d} for k, d in fs]
