"""C15  results do not depend on depth or association of the expression tree (both sides of every switch threshold)."""

from __future__ import annotations

import itertools
import sys

from checks.common import Fails, Report, detuple, np, natural_key, threshold, clear_caches
from mc import layers as L
from mc.alg import JetAlg, FloatAlg, UNARY
from mc.build import Builder
from mc.interp import Interp, var_names, param_names
from mc.oracle import close, REL_D, ref_poly

ID = "C15"
LEVEL = "model_checking"
RULE = (
    "states = (term kinds, operators, n, association, threshold configuration): SMALL regime = every term kind of "
    "the menu (19 unary functions of a variable, bare variable, x**2, 2**x, x**y, parameter, constant, each "
    "scalar-valued vector/matrix node) x op in {+,-,*,/} x n in 2..4 (quick) / 2..6 (thorough) x association "
    "{left-deep accumulation, balanced} x every threshold value T in 0..n+1 written to the four "
    "_RECURSION_THRESHOLD copies jointly and one module at a time (fresh expression and cleared caches per "
    "configuration; also with warm per-object caches and with every variable mention a distinct Variable object of the same name), plus all mixed chains of two term kinds and two operators over a reduced menu; REAL regime = "
    "accumulations of n in {399,400,401,900} terms cycling over 3 variables for value / compile / gradient / "
    "degree / solve and n in {401,5000,20000} for symbolic gradient, degree and variable discovery, default "
    "thresholds and default recursion limit, against the balanced and the vectorised build.  transitions = API "
    "calls on the real code; an evaluation = one observation (variables, degree, symbolic gradient value, compiled "
    "value / gradient / Jacobian / Hessian, solve result) compared with the reference fold of the terms and with "
    "the other association.  Non-trivial = configuration with >=1 variable and >=1 regular point."
)
ASSUMPTIONS = [
    "reference = iterative fold of reference jets over the term list (no recursion, mc/alg.py)",
    "tolerance 1e-9 / 1e-8 relative scaled by the number of terms plus measured conditioning",
]

A_, B_, C_ = ("var", "a"), ("var", "b"), ("var", "c")
VARS = (A_, B_, C_)
P = ("par", "p")
V3 = L.V3
OPS = ("+", "-", "*", "/")


def _many_rows(r):
    if not isinstance(r, tuple):
        return False
    if r and r[0] == "arr2" and len(r[1]) >= 7:
        return True
    return any(_many_rows(x) for x in r if isinstance(x, tuple))


def term_kinds():
    """name -> function(variable recipe) -> term recipe."""
    ks = {}
    for f in UNARY:
        ks["un:" + f] = (lambda f: lambda v: ("un", f, v))(f)
    ks["var"] = lambda v: v
    ks["sq"] = lambda v: ("bin", "**", v, ("c", 2))
    ks["2**x"] = lambda v: ("bin", "**", ("c", 2), v)
    ks["x**y"] = lambda v: ("bin", "**", v, B_ if v != B_ else A_)
    ks["param"] = lambda v: P
    ks["const"] = lambda v: ("c", 1.5)
    ks["x*p"] = lambda v: ("bin", "*", v, P)
    ks["2*x"] = lambda v: ("bin", "*", ("c", 2), v)
    for i, leaf in enumerate(L.layer_D_leaves()):
        if _many_rows(leaf):
            continue        # 7..13-row reductions: C02's subject (term counts), too large to accumulate hundreds of times
        ks["node%02d:%s" % (i, leaf[0])] = (lambda leaf: lambda v: leaf)(leaf)
    return ks


REDUCED = ["var", "sq", "un:sin", "un:atan", "un:log2", "un:abs", "x**y", "param", "const", "node00:sum", "node05:dot", "node17:qform"]


def left_deep_shared(b, terms, ops):
    """left-deep accumulation in which equal terms are ONE object used many times (s = 2*x; obj = obj + s + ...)"""
    objs = {}

    def get(t):
        if t not in objs:
            objs[t] = b.build(t)
        return objs[t]

    acc = get(terms[0])
    for t, op in zip(terms[1:], ops):
        x = get(t)
        acc = acc + x if op == "+" else acc - x if op == "-" else acc * x if op == "*" else acc / x
    return acc


def lp_coefficients(e):
    """objective row of the LP the solve path extracts for `minimize e`"""
    from optyx import Problem, analysis

    P = Problem().minimize(e)
    if not P._is_linear_problem():
        return None          # not on the LP route (e.g. a Parameter coefficient): nothing to extract
    lp = analysis.LinearProgramExtractor().extract(P)
    return dict(zip(list(lp.variables), [float(c_) for c_ in np.asarray(lp.c, dtype=float)]))


LINEAR_KINDS = ("var", "x*p", "2*x")


def left_deep(b, terms, ops, warm=False):
    """warm: the user inspects every term and every partial accumulation (degree, variables) while building, so
    every sub-expression object enters the final tree with its per-object caches already filled."""
    def touch(o):
        if warm and hasattr(o, "get_variables"):
            try:
                o.degree
                o.get_variables()
                o.is_linear()
            except Exception:
                pass
        return o

    acc = touch(b.build(terms[0]))
    last = len(terms) - 2
    for i, (t, op) in enumerate(zip(terms[1:], ops)):
        x = touch(b.build(t))
        acc = acc + x if op == "+" else acc - x if op == "-" else acc * x if op == "*" else acc / x
        if i != last and warm != "terms":
            touch(acc)
    return acc


def balanced(b, terms, ops):
    """Same left-to-right semantics for + and * (associative); for - and / the tail is grouped:
    t1 - (t2 + ... + tn), t1 / (t2 * ... * tn), each group built as a balanced tree."""
    def bal(objs, op):
        if len(objs) == 1:
            return objs[0]
        m = len(objs) // 2
        l, r = bal(objs[:m], op), bal(objs[m:], op)
        return l + r if op == "+" else l * r

    objs = [b.build(t) for t in terms]
    op = ops[0]
    if any(o != op for o in ops):
        return None
    if op in "+*":
        return bal(objs, op)
    if len(objs) == 1:
        return objs[0]
    tail = bal(objs[1:], "+" if op == "-" else "*")
    return objs[0] - tail if op == "-" else objs[0] / tail


def ref_fold(terms, ops, names, pts, Pn, params, dtype=np.float64):
    A = JetAlg(names, pts, params, dtype, Pn)
    I = Interp(A)
    acc = I.ev(terms[0])
    for t, op in zip(terms[1:], ops):
        x = I.ev(t)
        acc = A.add(acc, x) if op == "+" else A.sub(acc, x) if op == "-" else A.mul(acc, x) if op == "*" else A.div(acc, x)
    return acc, A


def points(names, n=5):
    g = (0.75, 1.25, 0.5, 1.5, 0.25, 2.0, -0.5, -1.5)
    return {nm: np.array([g[(j * 3 + k * (1 + j % 2)) % len(g)] for k in range(n)]) for j, nm in enumerate(names)}, n


def observe(e, names, b, pts, Pn, small=True):
    """All observation points of the property on one built expression; returns dict label -> value/exception."""
    from optyx import Problem
    from optyx.core import autodiff, compiler
    from optyx.core.expressions import get_all_variables

    out = {}
    V = b.variables_for(names)

    def rec(label, fn):
        try:
            out[label] = fn()
        except RecursionError as ex:
            out[label] = ("EXC", "RecursionError", "")
        except Exception as ex:
            out[label] = ("EXC", type(ex).__name__, str(ex)[:160])

    rec("variables", lambda: sorted(v.name for v in get_all_variables(e)))
    rec("problem.variables", lambda: [v.name for v in Problem().minimize(e).variables])
    rec("degree", lambda: e.degree)
    xs = [np.array([float(pts[n][k]) for n in names]) for k in range(Pn)]
    pds = [{n: float(pts[n][k]) for n in names} for k in range(Pn)]
    rec("evaluate", lambda: [float(np.asarray(e.evaluate(pd)).reshape(-1)[0]) for pd in pds])

    def sym_grad():
        gs = [autodiff.gradient(e, v) for v in V]
        return [[float(np.asarray(g.evaluate(pd)).reshape(-1)[0]) for g in gs] for pd in pds]

    rec("gradient", sym_grad)
    rec("compile", lambda: (lambda f: [float(np.asarray(f(x)).reshape(-1)[0]) for x in xs])(compiler.compile_expression(e, V)))
    pars = [o_ for k_, o_ in b.named.items() if k_[0] == "par"]
    if pars:
        # closures compiled at the first parameter value, parameters then updated, SAME closures called again
        def after_set():
            f = compiler.compile_expression(e, V)
            g = compiler.compile_gradient(e, V)
            old = [p_.value for p_ in pars]
            try:
                for p_ in pars:
                    p_.set(1.25)
                return ([float(np.asarray(f(x)).reshape(-1)[0]) for x in xs],
                        [float(np.asarray(e.evaluate(pd)).reshape(-1)[0]) for pd in pds],
                        [np.asarray(g(x), dtype=float).reshape(-1).tolist() for x in xs],
                        [[float(np.asarray(autodiff.gradient(e, v).evaluate(pd)).reshape(-1)[0]) for v in V] for pd in pds])
            finally:
                for p_, o_ in zip(pars, old):
                    p_.set(o_)

        rec("after-parameter-set", after_set)
    rec("compile_gradient", lambda: (lambda f: [np.asarray(f(x), dtype=float).reshape(-1).tolist() for x in xs])(compiler.compile_gradient(e, V)))
    rec("compile_jacobian", lambda: (lambda f: [np.asarray(f(x), dtype=float).reshape(-1).tolist() for x in xs])(autodiff.compile_jacobian([e], V)))
    if small:
        rec("compile_hessian", lambda: (lambda f: [np.asarray(f(x), dtype=float).tolist() for x in xs])(autodiff.compile_hessian(e, V)))
    return out


def compare(out, ref, A, names, fails, tag, nterms, shallow=None):
    """out vs reference jets (and vs the shallow-regime observations for error kinds)."""
    m = A.ok & A.regular
    idx = np.flatnonzero(m)
    scale = max(1, nterms)
    expv = sorted(names)
    for label, val in out.items():
        if isinstance(val, tuple) and val and val[0] == "EXC":
            if shallow is not None and isinstance(shallow.get(label), tuple) and shallow[label][:2] == val[:2]:
                continue      # the shallow build fails the same way: not a depth effect
            fails.add(f"exception:{label}:{val[1]}", config=tag, msg=val[2])
            continue
        if label == "variables":
            if val != expv:
                fails.add("variables", config=tag, got=val, expected=expv)
        elif label == "problem.variables":
            if val != sorted(names, key=natural_key):
                fails.add("problem.variables", config=tag, got=val, expected=sorted(names, key=natural_key))
        elif label == "degree":
            pass
        elif label == "after-parameter-set":
            cv, tv, cg, tg = val
            with np.errstate(all="ignore"):
                okv = all((not np.isfinite(t_)) or abs(c_ - t_) <= 1e-9 * scale * (1 + abs(t_)) for c_, t_ in zip(cv, tv))
                okg = all((not np.isfinite(t_)) or abs(c_ - t_) <= 1e-8 * scale * (1 + abs(t_))
                          for cr, tr in zip(cg, tg) for c_, t_ in zip(cr, tr))
            if not okv:
                fails.add("compiled-value-ignores-parameter-update", config=tag, compiled=cv, tree=tv)
            elif not okg:
                fails.add("compiled-gradient-ignores-parameter-update", config=tag, compiled=cg, tree=tg)
        elif label in ("evaluate", "compile"):
            ok_idx = np.flatnonzero(A.ok)
            for k in ok_idx:
                if not close(val[k], ref.v[k], 1e-12 * scale * abs(ref.v[k]), 1e-9 * scale):
                    fails.add(f"value:{label}", config=tag, got=val[k], expected=float(ref.v[k]), point=k)
                    break
        elif label in ("gradient", "compile_gradient", "compile_jacobian"):
            for k in idx:
                if not close(np.array(val[k]), ref.g[:, k], 1e-11 * scale * np.abs(ref.g[:, k]), REL_D * scale).all():
                    fails.add(f"derivative:{label}", config=tag, got=val[k], expected=ref.g[:, k], point=k)
                    break
        elif label == "compile_hessian":
            for k in idx:
                if not close(np.array(val[k]), ref.H[:, :, k], 1e-10 * scale * np.abs(ref.H[:, :, k]), REL_D * scale).all():
                    fails.add("derivative:compile_hessian", config=tag, got=val[k], expected=ref.H[:, :, k], point=k)
                    break


def modules():
    from optyx.core import autodiff, compiler, expressions
    from optyx import analysis

    return {"autodiff": autodiff, "compiler": compiler, "analysis": analysis, "expressions": expressions}


def run_config(terms, ops, assoc, T, which, fails, rep, tag):
    """Build fresh, set thresholds, observe, compare with reference."""
    mods = modules()
    names = sorted(set().union(*[var_names(t) for t in terms]), key=natural_key)
    pnames = sorted(set().union(*[param_names(t) for t in terms]))
    params = {p: 0.75 for p in pnames}
    pts, Pn = points(names)
    ref, A = ref_fold(terms, ops, names, pts, Pn, params)
    b = Builder(params=params, duplicate_variables=(assoc == "left-dupvars"))
    try:
        e = left_deep(b, terms, ops, warm=(assoc == "left-warm")) if assoc.startswith("left") else balanced(b, terms, ops)
    except Exception as ex:
        if rep:
            rep.skipped["build:" + type(ex).__name__] += 1
        return None
    from optyx.core.expressions import Expression

    if e is None or not isinstance(e, Expression):
        return None
    target = list(mods.values()) if which == "all" else [mods[which]]
    clear_caches()
    if T is None:
        out = observe(e, names, b, pts, Pn)
    else:
        with threshold(T, *target):
            out = observe(e, names, b, pts, Pn)
    clear_caches()
    if rep:
        rep.states += 1
        rep.transitions += len(terms) + len(out)
        rep.evaluations += len(out) * Pn
        if names and (A.ok & A.regular).any():
            rep.nt((terms, ops, assoc, T, which))
    return out, ref, A, names


def check_small(kinds, ops, n, rep=None, want=None, Ts=None):
    """One (term kinds, ops, n) family over every association x threshold x module configuration."""
    K = term_kinds()
    fails = Fails(want)
    terms = tuple(K[kinds[i % len(kinds)]](VARS[i % 3]) for i in range(n))
    opl = tuple(ops[i % len(ops)] for i in range(n - 1))
    base = run_config(terms, opl, "left", None, "all", Fails(), None, "default")
    if base is None:
        return fails
    shallow = base[0]
    degs = {}
    full = list(range(0, n + 2))
    if Ts == "quick-single":      # every T jointly; single modules only at the two extreme switch positions
        plan = [("all", T) for T in sorted({0, 1, n - 1, n, n + 1})] + [(w, T) for w in ("autodiff", "compiler", "analysis", "expressions") for T in (0, n - 1)]
    elif Ts == "quick-mixed":
        plan = [("all", T) for T in (0, n - 1)]
    else:
        plan = [(w, T) for w in ("all", "autodiff", "compiler", "analysis", "expressions") for T in full]
    for assoc in ("left", "balanced", "left-warm", "left-dupvars"):
        if Ts == "quick-mixed" and assoc in ("left-warm", "left-dupvars"):
            continue
        for which, T in plan:
            if assoc == "left-warm" and (which not in ("all", "analysis", "expressions")
                                         or (Ts is not None and (which != "all" or T not in (0, n - 1, n + 1)))):
                continue
            if assoc == "left-dupvars" and (which not in ("all", "autodiff", "compiler")
                                            or (Ts is not None and (which != "all" or T not in (0, n + 1)))):
                continue
            if True:
                tag = {"assoc": assoc, "T": T, "modules": which}
                r = run_config(terms, opl, assoc, T, which, fails, rep, tag)
                if r is None:
                    continue
                out, ref, A, names = r
                compare(out, ref, A, names, fails, tag, n, shallow)
                d = out.get("degree")
                if not isinstance(d, tuple):
                    degs[(assoc, which, T)] = d
    vals = {}
    for k, d in degs.items():
        vals.setdefault(k[0], set()).add(d)
    for assoc, ds in vals.items():
        if len(ds) > 1:
            fails.add("degree-depends-on-threshold", assoc=assoc, degrees=sorted(map(str, ds)))
    if len({frozenset(v) for v in vals.values()}) > 1:
        fails.add("degree-depends-on-association", degrees={k: sorted(map(str, v)) for k, v in vals.items()})
    return fails


# ------------------------------------------------------------------------------------- real depths


def iter_eval(expr, values):
    """Evaluate an optyx scalar tree with an explicit stack (harness-side; no recursion, any depth)."""
    from optyx.core.expressions import BinaryOp, UnaryOp

    out = {}
    stack = [(expr, 0)]
    while stack:
        node, ph = stack.pop()
        if id(node) in out:
            continue
        if isinstance(node, BinaryOp):
            if ph == 0:
                stack.append((node, 1))
                stack.append((node.right, 0))
                stack.append((node.left, 0))
            else:
                out[id(node)] = BinaryOp._OPS[node.op](out[id(node.left)], out[id(node.right)])
        elif isinstance(node, UnaryOp):
            if ph == 0:
                stack.append((node, 1))
                stack.append((node.operand, 0))
            else:
                out[id(node)] = node._numpy_func(out[id(node.operand)])
        else:
            out[id(node)] = node.evaluate(values)
    return float(np.asarray(out[id(expr)]).reshape(-1)[0])


def check_real(kind, op, n, rep=None, want=None):
    """n terms cycling over a, b, c accumulated left-deep with default thresholds and recursion limit."""
    from optyx import Problem
    from optyx.core import autodiff, compiler
    from optyx.core.expressions import get_all_variables

    K = term_kinds()
    fails = Fails(want)
    tag = {"kind": kind, "op": op, "n": n}
    terms = tuple(K[kind](VARS[i % 3]) for i in range(n))
    ops = (op,) * (n - 1)
    names = sorted(set().union(*[var_names(t) for t in terms[:3]]), key=natural_key)
    pnames = sorted(set().union(*[param_names(t) for t in terms[:3]]))
    params = {p: 0.75 for p in pnames}
    pts = {nm: np.array([1.0 + 0.001 * (j + 1), 0.999 - 0.002 * j]) for j, nm in enumerate(names)}
    Pn = 2
    ref, A = ref_fold(terms, ops, names, pts, Pn, params)
    ref80, A80 = ref_fold(terms, ops, names, pts, Pn, params, np.longdouble)
    if not (A.ok & A.regular).any():
        if rep:
            rep.skipped["no-regular-point"] += 1
        return fails
    clear_caches()
    b = Builder(params=params)
    e = left_deep(b, terms, ops)
    from optyx.core.expressions import Expression as _Expr

    if not isinstance(e, _Expr):       # pure-constant accumulations fold to a Python number: not an optyx expression
        if rep:
            rep.skipped["folds_to_python_number"] += 1
        return fails
    V = b.variables_for(names)
    if rep:
        rep.states += 1
        rep.transitions += n
        rep.nt(("real", kind, op, n))
        rep.max_depth = max(rep.max_depth, n)
    limit = sys.getrecursionlimit()

    def obs(label, fn, check):
        try:
            val = fn()
        except RecursionError:
            fails.add(f"RecursionError:{label}", config=tag, recursion_limit=limit)
            return
        except Exception as ex:
            fails.add(f"exception:{label}:{type(ex).__name__}", config=tag, msg=str(ex)[:160])
            return
        if rep:
            rep.evaluations += 1
            rep.transitions += 1
        check(val)

    errv = np.abs(ref.v - ref80.v.astype(float)) * 1e4
    errg = np.abs(ref.g - ref80.g.astype(float)) * 1e4
    okk = np.flatnonzero(A.ok & A.regular & A80.ok)
    xs = [np.array([float(pts[nm][k]) for nm in names]) for k in range(Pn)]
    pds = [{nm: float(pts[nm][k]) for nm in names} for k in range(Pn)]

    def chk_vars(val):
        if val != sorted(names):
            fails.add("variables", config=tag, got=val[:6], expected=sorted(names))

    obs("get_all_variables", lambda: sorted(v.name for v in get_all_variables(e)), chk_vars)
    obs("Problem.variables", lambda: sorted(v.name for v in Problem().minimize(e).subject_to(e <= 1e9).variables), chk_vars)
    # a unary node ON TOP of the accumulation (minimise the negated profit, exp of a sum) and a chain that STARTS with a
    # variable occurring nowhere else
    import optyx as _ox

    obs("get_all_variables(-acc)", lambda: sorted(v.name for v in get_all_variables(-e)), chk_vars)
    obs("get_all_variables(tanh(acc)+acc)", lambda: sorted(v.name for v in get_all_variables(_ox.tanh(e) + e)), chk_vars)
    obs("Problem.variables(-acc)", lambda: sorted(v.name for v in Problem().maximize(-e).subject_to(-e >= -1e9).variables), chk_vars)

    def unique_first():
        u = _ox.Variable("u_first")
        acc = u
        b2 = Builder(params=params)
        for t, o_ in zip(terms, ("+",) + ops):
            x_ = b2.build(t)
            acc = acc + x_ if o_ == "+" else acc - x_ if o_ == "-" else acc * x_ if o_ == "*" else acc / x_
        return sorted(v.name for v in Problem().minimize(acc).variables)

    obs("Problem.variables(unique-first-term)", unique_first, lambda val: chk_vars([v for v in val if v != "u_first"]) or (
        None if "u_first" in val else fails.add("variables", config=tag, got=val[:6], missing="u_first")))
    # degree: compare with the same formula built balanced
    bal = balanced(Builder(params=params), terms, ops)

    def chk_deg(val):
        try:
            d2 = bal.degree
        except Exception:
            return
        if val != d2:
            fails.add("degree-depends-on-association", config=tag, left_deep=val, balanced=d2)

    obs("degree", lambda: e.degree, chk_deg)
    # non-initial per-object caches: every term (and, up to 900 terms, every partial accumulation) inspected while building
    obs("degree-after-inspecting-terms", lambda: left_deep(Builder(params=params), terms, ops,
                                                           warm=True if n <= (900 if _TIER[0] == "thorough" else 401) else "terms").degree, chk_deg)

    def chk_val(label):
        def f(val):
            for k in okk:
                if not close(val[k], ref.v[k], errv[k] + 1e-12 * n * abs(ref.v[k]), 1e-9 * n):
                    fails.add(f"value:{label}", config=tag, got=val[k], expected=float(ref.v[k]))
                    return
        return f

    def chk_grad(label):
        def f(val):
            for k in okk:
                if not close(np.array(val[k]), ref.g[:, k], errg[:, k] + 1e-11 * n * np.abs(ref.g[:, k]), REL_D * n).all():
                    fails.add(f"derivative:{label}", config=tag, got=val[k], expected=ref.g[:, k])
                    return
        return f

    if n <= 900:
        obs("evaluate", lambda: [float(np.asarray(e.evaluate(pd)).reshape(-1)[0]) for pd in pds], chk_val("evaluate"))
        obs("compile", lambda: (lambda f: [float(np.asarray(f(x)).reshape(-1)[0]) for x in xs])(compiler.compile_expression(e, V)),
            chk_val("compile"))
        obs("compile_gradient", lambda: (lambda f: [np.asarray(f(x), dtype=float).reshape(-1).tolist() for x in xs])(
            compiler.compile_gradient(e, V)), chk_grad("compile_gradient"))
        obs("compile_jacobian", lambda: (lambda f: [np.asarray(f(x), dtype=float).reshape(-1).tolist() for x in xs])(
            autodiff.compile_jacobian([e], V)), chk_grad("compile_jacobian"))

    if kind in LINEAR_KINDS and op in "+-" and len(okk) and n <= 900:      # LP extraction belongs to `solve`: n <= 900
        k0 = int(okk[0])

        def chk_lp(label):
            def f(val):
                if val is None:
                    return
                got = [val.get(nm, 0.0) for nm in names]
                if not close(np.array(got), ref.g[:, k0], errg[:, k0] + 1e-11 * n * np.abs(ref.g[:, k0]), REL_D * n).all():
                    fails.add(f"lp-coefficients:{label}", config=tag, got=got, expected=ref.g[:, k0])
            return f

        obs("lp-extract", lambda: lp_coefficients(e), chk_lp("fresh-term-objects"))
        obs("lp-extract-shared", lambda: lp_coefficients(left_deep_shared(Builder(params=params), terms, ops)),
            chk_lp("shared-term-objects"))
    if n <= 900:
        es = left_deep_shared(Builder(params=params), terms, ops)
        Vs = None

        def shared_vals():
            bs = Builder(params=params)
            e2 = left_deep_shared(bs, terms, ops)
            V2 = bs.variables_for(names)
            f = compiler.compile_expression(e2, V2)
            g = compiler.compile_gradient(e2, V2)
            return [float(np.asarray(f(x)).reshape(-1)[0]) for x in xs], [np.asarray(g(x), dtype=float).reshape(-1).tolist() for x in xs]

        if op in "+-":
            obs("compile-shared-terms", shared_vals, lambda val: (chk_val("compile-shared-terms")(val[0]), chk_grad("compile_gradient-shared-terms")(val[1])))

    def sym():
        gs = [autodiff.gradient(e, v) for v in V]
        return [[iter_eval(g, pd) for g in gs] for pd in pds]

    obs("gradient", sym, chk_grad("gradient"))
    clear_caches()
    return fails


def check_vector_family(n, rep=None, want=None):
    """sum_i f(x[i]) accumulated term by term vs the vectorised build, n up to 20000."""
    import optyx
    from optyx import Problem
    from optyx.core import autodiff, compiler
    from optyx.core.expressions import get_all_variables

    fails = Fails(want)
    x = optyx.VectorVariable("x", n, lb=-5, ub=5)
    forms = {
        "sum": (lambda v: v, lambda: x.sum(), lambda t: 1.0, 1),
        "sum-of-squares": (lambda v: v ** 2, lambda: (x ** 2).sum(), lambda t: 2 * t, 2),
        "weighted": (lambda v: 2.0 * v, lambda: (np.full(n, 2.0)) @ x, lambda t: 2.0, 1),
        "sum-sin": (lambda v: optyx.sin(v), lambda: optyx.sin(x).sum(), lambda t: np.cos(t), None),
    }
    vals = {f"x[{i}]": 0.001 * (i % 7) - 0.002 for i in range(n)}
    for name, (term, vec, dterm, deg) in forms.items():
        tag = {"family": name, "n": n}
        clear_caches()
        try:
            acc = term(x[0])
            for i in range(1, n):
                acc = acc + term(x[i])
            ve = vec()
        except Exception as ex:
            fails.add("exception:build:" + type(ex).__name__, config=tag, msg=str(ex)[:160])
            continue
        if rep:
            rep.states += 1
            rep.transitions += n
            rep.nt(("vector", name, n))
            rep.max_depth = max(rep.max_depth, n)

        def obs(label, fn):
            try:
                r = fn()
                if rep:
                    rep.evaluations += 1
                    rep.transitions += 1
                return r
            except RecursionError:
                fails.add(f"RecursionError:{label}", config=tag)
            except Exception as ex:
                fails.add(f"exception:{label}:{type(ex).__name__}", config=tag, msg=str(ex)[:160])
            return None

        names = [f"x[{i}]" for i in range(n)]
        v1 = obs("get_all_variables", lambda: sorted((v.name for v in get_all_variables(acc)), key=natural_key))
        if v1 is not None and v1 != names:
            fails.add("variables", config=tag, got=len(v1), expected=n)
        v2 = obs("Problem.variables", lambda: [v.name for v in Problem().minimize(acc).variables])
        v3 = obs("Problem.variables(vectorised)", lambda: [v.name for v in Problem().minimize(ve).variables])
        if v2 is not None and (v2 != names or v3 != names):
            fails.add("problem.variables", config=tag, deep=(v2 or [])[:3], vectorised=(v3 or [])[:3])
        d1, d2 = obs("degree", lambda: acc.degree), obs("degree(vectorised)", lambda: ve.degree)
        if d1 is not None and d2 is not None and d1 != d2:
            fails.add("degree-depends-on-association", config=tag, deep=d1, vectorised=d2)
        if deg is not None and d1 is not None and d1 != deg:
            fails.add("degree", config=tag, got=d1, expected=deg)
        for i in (0, n // 2, n - 1):
            g1 = obs("gradient", lambda: float(np.asarray(autodiff.gradient(acc, x[i]).evaluate(vals))))
            g2 = obs("gradient(vectorised)", lambda: float(np.asarray(autodiff.gradient(ve, x[i]).evaluate(vals))))
            exp = float(dterm(vals[f"x[{i}]"]))
            if g1 is not None and (abs(g1 - exp) > 1e-9 or g2 is None or abs(g2 - exp) > 1e-9):
                fails.add("derivative:gradient", config=tag, index=i, deep=g1, vectorised=g2, expected=exp)
        if n <= 900:
            V = list(x)
            xv = np.array([vals[nm] for nm in names])
            f1 = obs("compile", lambda: float(compiler.compile_expression(acc, V)(xv)))
            f2 = obs("compile(vectorised)", lambda: float(compiler.compile_expression(ve, V)(xv)))
            e1 = obs("evaluate", lambda: float(acc.evaluate(vals)))
            if f1 is not None and f2 is not None and e1 is not None:
                if abs(f1 - f2) > 1e-9 * n or abs(f1 - e1) > 1e-9 * n:
                    fails.add("value:compile", config=tag, deep=f1, vectorised=f2, evaluate=e1)
            g1 = obs("compile_gradient", lambda: np.asarray(compiler.compile_gradient(acc, V)(xv), dtype=float))
            g2 = obs("compile_gradient(vectorised)", lambda: np.asarray(compiler.compile_gradient(ve, V)(xv), dtype=float))
            if g1 is not None and g2 is not None and not np.allclose(g1, g2, rtol=1e-9, atol=1e-9):
                fails.add("derivative:compile_gradient", config=tag)
            if name == "sum-of-squares":
                tgt = np.array([0.5 + 0.001 * (i % 5) for i in range(n)])
                def solve(build):
                    pr = Problem().minimize(build())
                    return pr.solve()
                def deep_obj():
                    a = (x[0] - tgt[0]) ** 2
                    for i in range(1, n):
                        a = a + (x[i] - tgt[i]) ** 2
                    return a
                s1 = obs("solve", lambda: solve(deep_obj))
                s2 = obs("solve(vectorised)", lambda: solve(lambda: (x - tgt).dot(x - tgt)))
                if s1 is not None and s2 is not None:
                    if s1.status != s2.status or s1.objective_value is None or abs(s1.objective_value - s2.objective_value) > 1e-6:
                        fails.add("solve-depends-on-association", config=tag, deep=(s1.status.value, s1.objective_value),
                                  vectorised=(s2.status.value, s2.objective_value))
    clear_caches()
    return fails


# ------------------------------------------------------------------------------------- engine glue


def small_items(tier):
    K = list(term_kinds())
    ns = (2, 3, 4) if tier == "quick" else (2, 3, 4, 5, 6)
    items = []
    for k in K:
        for op in OPS:
            for n in ns:
                items.append(("small", (k,), (op,), n))
    for k1, k2 in itertools.product(REDUCED, repeat=2):
        if k1 == k2:
            continue
        for o1, o2 in itertools.product(OPS, repeat=2):
            items.append(("small", (k1, k2), (o1, o2), 3 if tier == "quick" else 4))
    return items


def real_items(tier):
    items = []
    kinds = ["var", "sq", "un:sin", "un:atan", "un:asinh", "un:log2", "un:exp", "un:abs", "un:cosh", "un:sqrt", "x*p", "2**x", "2*x"]
    if tier == "thorough":
        kinds = [k for k in term_kinds() if not k.startswith("node")] + ["node00:sum", "node05:dot", "node17:qform"]
    for k in kinds:
        for op in ("+", "-") if tier == "quick" else OPS:
            for n in (399, 400, 401, 900):
                items.append(("real", k, op, n))
        for op in ("*", "/") if tier == "quick" else ():
            items.append(("real", k, op, 401))
            if k in ("un:sin", "un:exp", "var"):
                items.append(("real", k, op, 900))
    for k in ("var", "sq", "un:sin"):
        for n in (5000, 20000) if tier == "thorough" else (5000,):
            items.append(("real", k, "+", n))
    for n in (401, 5000) if tier == "quick" else (401, 900, 5000, 20000):
        items.append(("vector", n))
    return items


def shards(tier, seed):
    sm = small_items(tier)
    chunks = [("chunk", "small", i, 160) for i in range(160)]
    return chunks + real_items(tier)


_TIER = ["quick"]


def explore(item, tier, seed):
    rep = Report()
    _TIER[0] = tier

    def record(fs, case):
        seen = set()
        for k, d in fs:
            if k not in seen:
                seen.add(k)
                rep.violation(k, case, **d)

    if item[0] == "chunk":
        _, _, i, n = item
        for j, it in enumerate(small_items(tier)):
            if j % n != i:
                continue
            _, kinds, ops, nn = it
            Ts = None if tier == "thorough" else ("quick-single" if len(kinds) == 1 else "quick-mixed")
            record(check_small(kinds, ops, nn, rep, Ts=Ts), {"regime": "small", "kinds": kinds, "ops": ops, "n": nn})
            if j % 97 == 0:
                rep.sample({"regime": "small", "kinds": kinds, "ops": ops, "n": nn})
    elif item[0] == "real":
        _, k, op, n = item
        record(check_real(k, op, n, rep), {"regime": "real", "kinds": (k,), "ops": (op,), "n": n})
        rep.sample({"regime": "real", "kind": k, "op": op, "n": n})
    else:
        record(check_vector_family(item[1], rep), {"regime": "vector", "n": item[1]})
        rep.sample({"regime": "vector", "n": item[1]})
    return rep


def expression_depth(e):
    """depth of an expression DAG (explicit stack, memo by object identity)"""
    memo = {}
    stack = [(e, False)]
    while stack:
        node, done = stack.pop()
        kids = [k for k in (getattr(node, "left", None), getattr(node, "right", None), getattr(node, "operand", None))
                if k is not None and hasattr(k, "evaluate")]
        if done:
            memo[id(node)] = 1 + max((memo.get(id(k), 0) for k in kids), default=0)
        elif id(node) not in memo:
            stack.append((node, True))
            for k in kids:
                if id(k) not in memo:
                    stack.append((k, False))
    return memo[id(e)]


def derivative_depth(kind, op, n):
    """largest depth of the symbolic partial derivatives of the n-term left-deep accumulation"""
    from optyx.core import autodiff

    K = term_kinds()
    terms = tuple(K[kind](VARS[i % 3]) for i in range(n))
    names = sorted(set().union(*[var_names(t) for t in terms[:3]]), key=natural_key)
    pnames = sorted(set().union(*[param_names(t) for t in terms[:3]]))
    b = Builder(params={p_: 0.75 for p_ in pnames})
    e = left_deep(b, terms, (op,) * (n - 1))
    return max(expression_depth(autodiff.gradient(e, v_)) for v_ in b.variables_for(names))


def culprit(v):
    c = v["case"]
    d = v.get("detail", {})
    cfg = d.get("config", {}) if isinstance(d, dict) else {}
    if c["regime"] == "small":
        return {"kind": v["kind"], "regime": "small", "kinds": c["kinds"], "modules": cfg.get("modules"), "assoc": cfg.get("assoc")}
    if c["regime"] == "real":
        if v["kind"] in ("RecursionError:compile_gradient", "RecursionError:compile_jacobian"):
            # identified by its CAUSE, measured on the failing input: the symbolic derivative is deeper than the
            # recursion limit allows for a closure nested once per level (any other RecursionError stays specific)
            try:
                depth = derivative_depth(c["kinds"][0], c["ops"][0], c["n"])
            except Exception:
                depth = None
            limit = sys.getrecursionlimit()
            if depth is not None and depth >= limit - 150:
                return {"kind": v["kind"], "regime": "real", "cause": "derivative-expression-depth>=recursion-limit-150"}
            return {"kind": v["kind"], "regime": "real", "kinds": c["kinds"], "op": c["ops"][0], "n": c["n"], "derivative_depth": depth}
        if v["kind"].startswith("RecursionError:"):
            return {"kind": v["kind"], "regime": "real", "kinds": c["kinds"], "op": c["ops"][0], "n": c["n"]}
        return {"kind": v["kind"], "regime": "real", "kinds": c["kinds"], "op": c["ops"][0]}
    return {"kind": v["kind"], "regime": "vector", "family": cfg.get("family")}


def replay(art):
    c = art["violation"]["case"]
    want = art["culprit"]["kind"]
    if c["regime"] == "small":
        fs = check_small(tuple(c["kinds"]), tuple(c["ops"]), c["n"], None, want=want)
    elif c["regime"] == "real":
        fs = check_real(c["kinds"][0], c["ops"][0], c["n"], None, want=want)
    else:
        fs = check_vector_family(c["n"], None, want=want)
    return [{"kind": k, "detail": d} for k, d in fs]
