"""C12  parameter updates are honoured by every later evaluation, compiled callable, derivative and solve."""

from __future__ import annotations

from mc.callers import clear_lru  # noqa: E402

import warnings

from checks.common import Fails, Report, detuple, np, threshold
from checks.c13 import call_signature, same_outcome
from mc.explore import bfs, minimise_history
from mc.seams import Seam, result

ID = "C12"
LEVEL = "model_checking"
RULE = (
    "states = canonical states reached by operation histories on parameterised models; models (menu): parameter as "
    "objective coefficient p*x, additive x+p, inside a Hessian entry p*x**2, exponent x**p, inside exp(p*x), "
    "constraint right-hand side x<=p, constraint coefficient, two parameters, VectorParameter elements P[i]*x[i], "
    "and the documented forms P @ x and x.dot(MatrixParameter @ x); operations: p.set(v) for v in a 2-value "
    "(3 thorough) menu per parameter, solve(m) for m in {auto, SLSQP, trust-constr, L-BFGS-B}, evaluate, compile "
    "through the default builder, compile through the iterative builder (threshold lowered), call of all stored "
    "closures (value, gradient, Jacobian, Hessian).  BFS to FIXPOINT per model, every history replayed on fresh "
    "real objects; canonical state = (current parameter values, values at which each stored closure set and each "
    "Problem cache was created).  Oracle on every observation: equality with a fresh model in which every "
    "parameter is a literal constant holding its current value - exact for evaluate / compiled calls / "
    "derivatives / what reaches the back-end under an explicit method; objective value only for auto."
)
ASSUMPTIONS = [
    "prefix solves are answered by a scripted back-end (caches are filled before the back-end is called); the observed solve is real",
]

PROBES = (np.array([0.75, 1.5, 0.5]), np.array([1.25, 0.625, 2.0]))


def models():
    """name -> (parameter value menus, builder(params) -> dict(P=Problem, exprs=[...], vars=[...]))."""
    import optyx
    from optyx import Variable, VectorVariable, Problem

    def xy():
        return Variable("x", lb=0.25, ub=4.0), Variable("y", lb=0.25, ub=4.0)

    def m_coef(p):
        x, y = xy()
        o = (x - 2) ** 2 + p["p"] * x
        return dict(P=Problem().minimize(o), exprs=[o], vars=[x])

    def m_add(p):
        x, y = xy()
        o = (x - 1) ** 2 + p["p"]
        return dict(P=Problem().minimize(o), exprs=[o], vars=[x])

    def m_hess(p):
        x, y = xy()
        o = p["p"] * x ** 2 - 4 * x
        return dict(P=Problem().minimize(o), exprs=[o], vars=[x])

    def m_exponent(p):
        x, y = xy()
        o = x ** p["p"] + (x - 3) ** 2
        return dict(P=Problem().minimize(o), exprs=[o], vars=[x])

    def m_inside(p):
        x, y = xy()
        o = optyx.exp(p["p"] * x) + (x - 2) ** 2
        return dict(P=Problem().minimize(o), exprs=[o], vars=[x])

    def m_rhs(p):
        x, y = xy()
        o = (x - 3) ** 2
        c = x <= p["p"]
        return dict(P=Problem().minimize(o).subject_to(c), exprs=[o, c.expr], vars=[x])

    def m_paramonly(p):
        # a constraint WITHOUT decision variables (a budget that only depends on data): satisfied or violated by the
        # parameter alone
        from optyx.core.expressions import Constant, Expression

        x, y = xy()
        o = (x - 3) ** 2
        pe = p["p"] if isinstance(p["p"], Expression) else Constant(p["p"])
        c0 = pe * 2 <= 10
        return dict(P=Problem().minimize(o).subject_to(c0), exprs=[o, c0.expr], vars=[x])

    def m_concoef(p):
        x, y = xy()
        o = (x - 3) ** 2 + (y - 3) ** 2
        c = p["p"] * x + y <= 4
        return dict(P=Problem().minimize(o).subject_to(c), exprs=[o, c.expr], vars=[x, y])

    def m_two(p):
        x, y = xy()
        o = (x - p["p"]) ** 2 + (y - p["q"]) ** 2
        c = x + y <= p["p"] + p["q"] - 0.5
        return dict(P=Problem().maximize(-o).subject_to(c), exprs=[o, c.expr], vars=[x, y])

    def m_linear(p):
        x, y = xy()
        o = p["p"] * x + 2 * y
        c = x + y >= p["q"]
        return dict(P=Problem().minimize(o).subject_to(c), exprs=[o, c.expr], vars=[x, y])

    def m_linconcoef(p):
        # an all-linear model whose constraint ROW holds the parameter (objective and right-hand side are plain data)
        x, y = xy()
        o = x + 2 * y
        c = p["p"] * x + y >= 3
        return dict(P=Problem().minimize(o).subject_to(c), exprs=[o, c.expr], vars=[x, y])

    def m_vecelems(p):
        v = VectorVariable("v", 3, lb=0.0, ub=4.0)
        o = v.dot(v)
        for i in range(3):
            o = o - p["P"][i] * v[i]
        return dict(P=Problem().minimize(o), exprs=[o], vars=list(v))

    def m_paramtimesnode(p):
        # a scalar Parameter DIRECTLY multiplying a whole-vector node, the product (plus a constant offset) being the
        # entire objective / constraint expression
        v = VectorVariable("v", 3, lb=0.0, ub=4.0)
        o = p["p"] * v.dot(v) - 1
        c = p["q"] * v.sum() >= 3
        return dict(P=Problem().minimize(o).subject_to(c), exprs=[o, c.expr], vars=list(v))

    def m_paramreduction(p):
        # reductions over a vector whose elements are Parameters ONLY (a data total, a weighted total, a squared
        # length), sitting under operators whose other operands are variable-free as well
        from optyx.core.expressions import Constant, Expression
        from optyx.core.vectors import VectorExpression

        x, y = xy()
        dvec = VectorExpression([e if isinstance(e, Expression) else Constant(float(e)) for e in list(p["P"])])
        total = dvec.sum()
        weighted = np.array([1.0, 0.0, 2.0]) @ dvec
        length = dvec.dot(dvec)
        o = (x - 0.5 * total) ** 2 + x * (-weighted) + x ** 2 / (length + 1)
        return dict(P=Problem().minimize(o), exprs=[o], vars=[x])

    def m_vecmatmul(p):
        v = VectorVariable("v", 3, lb=0.0, ub=4.0)
        o = v.dot(v) - (p["P"] @ v)
        return dict(P=Problem().minimize(o), exprs=[o], vars=list(v))

    def m_matparam(p):
        v = VectorVariable("v", 3, lb=-4.0, ub=4.0)
        o = v.dot(p["S"] @ v) - 2 * v.sum()
        return dict(P=Problem().minimize(o), exprs=[o], vars=list(v))

    S1 = ((2.0, 0.5, 0.0), (0.5, 1.0, 0.25), (0.0, 0.25, 3.0))
    S2 = ((1.0, 0.0, 0.5), (0.0, 2.0, 0.0), (0.5, 0.0, 1.5))
    S3 = ((3.0, 1.0, 0.0), (1.0, 3.0, 1.0), (0.0, 1.0, 3.0))
    return {
        # index 0 is the value at which closures / caches are first built: 1.0 and 0.0 are the values around
        # which algebraic simplifications fire
        "coef": ({"p": (1.0, -0.5, 0.0)}, m_coef),
        "coef-from-0": ({"p": (0.0, 2.5, 1.0)}, m_coef),
        "additive": ({"p": (0.0, -0.5, 1.0)}, m_add),
        "hessian-entry": ({"p": (1.0, 2.0, 0.5)}, m_hess),
        "exponent": ({"p": (1.0, 3.0, 2.0)}, m_exponent),
        "exponent-from-2": ({"p": (2.0, 1.0, 1.5)}, m_exponent),
        "exponent-from-0": ({"p": (0.0, 2.0, 3.0)}, m_exponent),
        "inside-exp": ({"p": (1.0, 0.25, 0.0)}, m_inside),
        "constraint-rhs": ({"p": (1.0, 2.0, 3.5)}, m_rhs),
        "constraint-coef": ({"p": (1.0, 2.0, 0.0)}, m_concoef),
        "parameter-only-constraint": ({"p": (3.0, 7.0, 4.0)}, m_paramonly),
        "two-params": ({"p": (1.0, 2.0, 3.0), "q": (1.5, 0.5, 2.5)}, m_two),
        "linear-in-x": ({"p": (1.0, 3.0, -1.0), "q": (1.0, 2.0, 0.5)}, m_linear),
        "linear-constraint-row": ({"p": (1.0, 3.0, 0.5)}, m_linconcoef),
        "vector-elements": ({"P": ((1.0, 2.0, 3.0), (3.0, 0.5, 1.0), (0.0, 4.0, 2.0))}, m_vecelems),
        "parameter-times-vector-node": ({"p": (1.0, 2.0, 0.5), "q": (1.0, 2.0, 0.5)}, m_paramtimesnode),
        "parameter-only-reductions": ({"P": ((1.0, 2.0, 3.0), (3.0, 0.5, 1.0), (0.0, 4.0, 2.0))}, m_paramreduction),
        "P@x": ({"P": ((1.0, 2.0, 3.0), (3.0, 0.5, 1.0), (0.0, 4.0, 2.0))}, m_vecmatmul),
        "x.dot(S@x)": ({"S": (S1, S2, S3)}, m_matparam),
    }


def make_params(menu, values, constants):
    """Parameter objects holding `values` (or plain constants for the reference model)."""
    import optyx

    out = {}
    for name, v in values.items():
        if name == "P":
            out[name] = np.array(v, dtype=float) if constants else optyx.VectorParameter("P", 3, values=list(v))
        elif name == "S":
            out[name] = np.array(v, dtype=float) if constants else optyx.MatrixParameter("S", np.array(v, dtype=float), symmetric=True)
        else:
            out[name] = float(v) if constants else optyx.Parameter(name, float(v))
    return out


def compile_all(built, iterative):
    from optyx.core import compiler, autodiff

    V = built["vars"]
    e = built["exprs"][0]

    def mk():
        from mc.callers import InPlace      # solver calling discipline: one buffer updated in place, each point twice

        return {
            "value": InPlace(compiler.compile_expression(e, V)),
            "gradient": InPlace(compiler.compile_gradient(e, V)),
            "jacobian": InPlace(autodiff.compile_jacobian(built["exprs"], V)),
            "hessian": InPlace(autodiff.compile_hessian(e, V)),
        }

    if iterative:
        with threshold(0, compiler, autodiff):
            clear_lru(compiler)
            out = mk()
        clear_lru(compiler)
        return out
    return mk()


def call_all(closures, n):
    out = {}
    for k, f in closures.items():
        try:
            out[k] = [np.asarray(f(p[:n]), dtype=float).round(10).tolist() for p in PROBES]
        except Exception as ex:
            out[k] = ("raised", type(ex).__name__, str(ex)[:80])
    return out


def solve_observed(P, method, x0=None):
    kw = {} if method == "auto" else {"method": method}
    if x0 is not None:
        kw["x0"] = np.array(x0, dtype=float)
    with warnings.catch_warnings():
        warnings.simplefilter("ignore")
        with Seam() as s:
            try:
                sol = P.solve(**kw)
                out = ("solution", sol.status.value, sol.objective_value, dict(sol.values))
            except Exception as ex:
                out = ("raised", type(ex).__name__)
    sigs = []
    for c in s.calls:
        try:
            kwc = dict(c.kw)
            n = len(np.asarray(kwc.get("x0", kwc.get("c", [0]))).reshape(-1))
            if c.kind == "minimize":
                sig = ["minimize", kwc.get("method")]
                for p in PROBES:
                    x = p[:n]
                    sig.append(round(float(kwc["fun"](x)), 9))
                    sig.append(None if kwc.get("jac") is None else np.asarray(kwc["jac"](x), dtype=float).round(9).tolist())
                    sig.append(None if kwc.get("hess") is None else np.asarray(kwc["hess"](x), dtype=float).round(9).tolist())
                    for cd in kwc.get("constraints") or ():
                        sig.append((cd["type"], round(float(cd["fun"](x)), 9), np.asarray(cd["jac"](x), dtype=float).round(9).tolist()))
                sigs.append(repr(sig))
            else:
                sigs.append(repr(call_signature(c)))
        except Exception as ex:
            sigs.append(repr(("signature-error", type(ex).__name__, str(ex)[:80])))
    return out, sigs


LEAN_MODELS = {"parameter-only-constraint"}     # infeasible states make every real solve expensive


class Driver:
    def __init__(self, name, nvals):
        self.name = name
        self.menu, self.builder = models()[name]
        self.nvals = nvals
        self.pnames = sorted(self.menu)

    def ops(self, model, hist):
        out = []
        for pn in self.pnames:
            for i in range(self.nvals):
                if model["values"][pn] != i:
                    out.append(("set", pn, i))
        if len(self.pnames) > 1 or self.name in LEAN_MODELS:
            # two parameters: lean operation menu (the provenance space is 5^k in the number of caches)
            out += [("evaluate",), ("compile", "default"), ("call",), ("solve", "auto"), ("solve", "SLSQP")]
            return out
        out += [("evaluate",), ("compile", "default"), ("compile", "iterative"), ("call",)]
        out += [("solve", m) for m in ("auto", "SLSQP", "trust-constr", "L-BFGS-B")]
        # warm start from the point the previous (environment-answered) solve ended at: the all-ones point
        out += [("solve", m, "x0=ones") for m in ("SLSQP", "L-BFGS-B")]
        return out

    def current(self, idx):
        return {pn: self.menu[pn][i] for pn, i in idx.items()}

    def run(self, hist):
        fails = Fails()
        idx = {pn: 0 for pn in self.pnames}
        try:
            params = make_params(self.menu, self.current(idx), constants=False)
            built = self.builder(params)
        except Exception as ex:
            fails.add("exception:build:" + type(ex).__name__, model=self.name, msg=str(ex)[:200])
            return ("unbuildable",), {"values": idx}, fails
        P = built["P"]
        n = len(built["vars"])
        closures = {}
        tags = {"closures:default": None, "closures:iterative": None, "solver_cache": None, "hess": None, "lp_cache": None}
        ids = {"solver_cache": None, "lp_cache": None}
        N = len(hist)
        for i, op in enumerate(hist):
            last = i == N - 1
            k = op[0]
            if k == "set":
                idx[op[1]] = op[2]
                val = self.menu[op[1]][op[2]]
                try:
                    params[op[1]].set(np.array(val, dtype=float) if op[1] in ("P", "S") else val)
                except Exception as ex:
                    fails.add("exception:set:" + type(ex).__name__, msg=str(ex)[:200])
            elif k == "compile":
                try:
                    closures[op[1]] = compile_all(built, op[1] == "iterative")
                    tags["closures:" + op[1]] = tuple(sorted(idx.items()))
                except Exception as ex:
                    if last:
                        fails.add("exception:compile:" + type(ex).__name__, builder=op[1], msg=str(ex)[:200])
            elif last and k in ("evaluate", "call", "solve"):
                ref = self.builder(make_params(self.menu, self.current(idx), constants=True))
                if k == "evaluate":
                    for j, (e, er) in enumerate(zip(built["exprs"], ref["exprs"])):
                        for p in PROBES:
                            pd = {v.name: float(p[t]) for t, v in enumerate(built["vars"])}
                            try:
                                got = float(np.asarray(e.evaluate(pd)).reshape(-1)[0])
                            except Exception as ex:
                                fails.add("exception:evaluate:" + type(ex).__name__, expr=j, msg=str(ex)[:200])
                                break
                            exp = float(np.asarray(er.evaluate(pd)).reshape(-1)[0])
                            if abs(got - exp) > 1e-10 * max(1, abs(exp)):
                                fails.add("stale-evaluate", expr=j, got=got, expected=exp, values=self.current(idx))
                                break
                elif k == "call":
                    for which, cl in closures.items():
                        got = call_all(cl, n)
                        try:
                            exp = call_all(compile_all(ref, False), n)
                        except Exception as ex:
                            fails.add("harness:reference-compile:" + type(ex).__name__, msg=str(ex)[:100])
                            break
                        for key in exp:
                            if got.get(key) != exp[key]:
                                fails.add("stale-compiled-" + key, builder=which, got=got.get(key), expected=exp[key],
                                          values=self.current(idx), compiled_at=tags["closures:" + which])
                                break
                else:
                    x0 = np.ones(n) if len(op) > 2 else None
                    out, sigs = solve_observed(P, op[1], x0)
                    outr, sigsr = solve_observed(ref["P"], op[1], x0)
                    if op[1] != "auto":
                        if sigs != sigsr:
                            fails.add("backend-model-differs-from-constant-model", method=op[1], values=self.current(idx),
                                      got=sigs[:1], expected=sigsr[:1], n_calls=(len(sigs), len(sigsr)))
                        if not same_outcome(out, outr):
                            fails.add("solve-result-differs-from-constant-model", method=op[1], values=self.current(idx),
                                      got=out, expected=outr)
                    else:
                        okk = out[0] == outr[0] and (out[0] == "raised" or (
                            out[1] == outr[1] and (out[2] is None) == (outr[2] is None)
                            and (out[2] is None or abs(out[2] - outr[2]) <= 2e-3 * (1 + abs(outr[2])))))
                        if not okk:
                            fails.add("solve-result-differs-from-constant-model", method="auto", values=self.current(idx),
                                      got=out[:3], expected=outr[:3])
            elif k == "solve":
                kw = {} if op[1] == "auto" else {"method": op[1]}
                with warnings.catch_warnings():
                    warnings.simplefilter("ignore")
                    with Seam(script=[lambda call: result(np.ones(n), fun=0.0)] * 3, passthrough=False):
                        try:
                            P.solve(**kw)
                        except Exception:
                            pass
            # provenance of the Problem caches
            cur = tuple(sorted(idx.items()))
            for name, attr in (("solver_cache", "_solver_cache"), ("lp_cache", "_lp_cache")):
                obj = getattr(P, attr)
                if obj is None:
                    tags[name], ids[name] = None, None
                elif ids[name] != id(obj):
                    tags[name], ids[name] = cur, id(obj)
            sc = P._solver_cache
            if sc is None or "hess_fn" not in sc:
                tags["hess"] = None
            elif tags["hess"] is None:
                tags["hess"] = cur
        from checks.c13 import hidden_state

        key = (tuple(sorted(idx.items())), tuple(sorted((k, repr(v)) for k, v in tags.items())), hidden_state(P))
        return key, {"values": dict(idx)}, fails


def shards(tier, seed):
    return [(name,) for name in models()]


def explore(item, tier, seed):
    rep = Report()
    drv = Driver(item[0], 2 if tier == "quick" else 3)
    ns, nt, fix = bfs(drv, [()], max_depth=12 if tier == "quick" else 16, rep=rep)
    rep.extra["fixpoint:" + item[0]] = bool(fix)
    rep.outcomes["model:%s:%s" % (item[0], "fixpoint" if fix else "depth-bounded")] += 1
    if not fix:
        rep.caps.append(f"model {item[0]}: depth bound reached before fixpoint")
    rep.sample({"model": item[0], "states": ns, "transitions": nt, "fixpoint": fix})
    rep.evaluations = rep.transitions
    for i in range(rep.states):
        rep.nt((item, i))
    for v in rep.violations:
        v["case"]["model"] = item[0]
    return rep


def culprit(v):
    name = v["case"]["model"]
    hist = tuple(tuple(op) for op in detuple(v["case"]["history"]))
    drv = Driver(name, 3)
    kind = v["kind"]

    def f(h):
        _, _, fs = drv.run(h)
        return any(k == kind for k, _ in fs)

    hmin = minimise_history(hist, f, always_keep=1)
    return {"kind": kind, "model": name, "history": hmin}


def replay(art):
    c = art["culprit"]
    drv = Driver(c["model"], 3)
    _, _, fs = drv.run(tuple(tuple(op) for op in detuple(c["history"])))
    return [{"kind": k, "detail": d} for k, d in fs if k == c["kind"]]
