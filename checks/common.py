"""Shared plumbing for the scalar-recipe checks (C01, C02, C03, C04, C17, C19)."""

from __future__ import annotations

from mc.callers import clear_lru  # noqa: E402

import numpy as np

from mc import layers as L
from mc.build import Builder
from mc.engine import Report, detuple
from mc.interp import var_names, param_names, natural_key
from mc.minimise import minimise, size
from mc.oracle import grid_points, ref_value, ref_jet, close, point_dict, REL_D

PVAL = 0.75
FOREIGN = "zz"


class Case:
    """One scalar recipe, built on the real code, with its reference data."""

    __slots__ = ("r", "names", "pnames", "params", "pts", "P", "b", "e", "skip")

    def __init__(self, r, tier, seed, full=None, P=8):
        from optyx.core.expressions import Expression

        self.r = r
        self.skip = None
        self.names = var_names(r)
        self.pnames = param_names(r)
        self.params = {p: PVAL for p in self.pnames}
        self.pts, self.P = grid_points(
            self.names, seed, full=(tier == "thorough") if full is None else full, P=P
        )
        self.b = Builder(params=self.params)
        self.e = None
        try:
            self.e = self.b.build(r)
        except Exception as ex:
            self.skip = "build:" + type(ex).__name__
            return
        if not isinstance(self.e, Expression):
            self.skip = "folds_to_python_number"

    def jets(self, wrt):
        return ref_jet(self.r, wrt, self.pts, self.P, self.params)

    def values(self):
        return ref_value(self.r, self.pts, self.P, self.params)

    def point(self, k):
        return point_dict(self.pts, k)

    def x_of(self, vn, k, fill=0.125):
        return np.array([float(self.pts[n][k]) if n in self.pts else fill for n in vn])


def layer_items(nA=48, nB=8, nC=4, nD=8):
    return ([("A", i, nA) for i in range(nA)] + [("B", i, nB) for i in range(nB)]
            + [("C", i, nC) for i in range(nC)] + [("D", i, nD) for i in range(nD)])


def layer_recipes(item, tier, A_leaves=(4, 6), B_nodes=(5, 6), A_depth=2):
    layer, i, n = item
    q = 0 if tier == "quick" else 1
    if layer == "A":
        gen = L.layer_A(L.LEAVES[A_leaves[q]], A_depth)
    elif layer == "B":
        gen = L.layer_B(B_nodes[q])
    elif layer == "C":
        gen = L.layer_C(3)
    else:
        gen = L.layer_D()
    return L.shard(gen, i, n)


def std_explore(check_recipe, item, tier, seed, recipes):
    rep = Report()
    for r in recipes:
        fs = check_recipe(r, tier, seed, rep)
        seen = set()
        for kind, d in fs:
            if kind in seen:
                continue
            seen.add(kind)
            rep.violation(kind, {"recipe": r}, **d)
        if rep.states % 997 == 1:
            rep.sample({"recipe": r, "layer": item[0]})
    return rep


def std_culprit(check_recipe):
    def culprit(v):
        r = detuple(v["case"]["recipe"])
        kind = v["kind"]
        rmin = minimise(r, lambda c: bool(check_recipe(c, "quick", 0, None, want=kind)))
        return {"kind": kind, "recipe": rmin}

    return culprit


def std_replay(check_recipe):
    def replay(art):
        r = detuple(art["culprit"]["recipe"])
        fs = check_recipe(r, "quick", art.get("seed", 0), None, want=art["culprit"]["kind"])
        return [{"kind": k, "detail": d} for k, d in fs]

    return replay


from mc.callers import RepeatCallDiffers, InputMutated, InPlace  # noqa: E402,F401


class Fails(list):
    def __init__(self, want=None):
        super().__init__()
        self.want = want

    def add(self, kind, **d):
        if self.want is None or kind == self.want:
            self.append((kind, d))


class threshold:
    """Temporarily set <module>._RECURSION_THRESHOLD (and restore it)."""

    def __init__(self, value, *mods):
        self.value = value
        self.mods = mods

    def __enter__(self):
        self.old = [m._RECURSION_THRESHOLD for m in self.mods]
        for m in self.mods:
            m._RECURSION_THRESHOLD = self.value

    def __exit__(self, *a):
        for m, o in zip(self.mods, self.old):
            m._RECURSION_THRESHOLD = o


def clear_caches():
    from optyx.core import compiler, autodiff
    from optyx import analysis

    clear_lru(compiler)
    clear_lru(autodiff)
    clear_lru(analysis)


__all__ = [
    "Case", "Fails", "Report", "close", "REL_D", "size", "natural_key", "FOREIGN", "np",
    "layer_items", "layer_recipes", "std_explore", "std_culprit", "std_replay", "threshold",
    "clear_caches", "detuple", "InPlace",
]
